# Builds the simulation engines from /repo's *current working tree* (headers only: -I/repo/include first).
REPO ?= /repo
B := build
CXX := g++
SAN := -fsanitize=address,undefined -fno-sanitize=pointer-overflow,nonnull-attribute,null -fno-sanitize-recover=undefined -fno-omit-frame-pointer
COMMON := -O1 -g1 -DNDEBUG -I$(REPO)/include -Wno-deprecated-declarations -MMD -MP $(SAN)
MEM_GROUPS := a b c d e f g h
# C01/C10 quantify over all row alignments, including ones that misalign 16/32-bit channels (gil then makes misaligned
# accesses, which x86 tolerates and which no property forbids): the alignment check would drown the bounds oracle
MEM_SAN := -fno-sanitize=alignment
MEM14_OBJS := $(B)/mem14/memsim_main.o $(foreach g,$(MEM_GROUPS),$(B)/mem14/group_$(g).o)
MEM17_OBJS := $(B)/mem17/memsim_main.o $(foreach g,$(MEM_GROUPS),$(B)/mem17/group_$(g).o)

IO_FORMATS ?= bmp pnm targa png jpeg tiff
IO_SRCS := iosim_main wraps $(foreach f,$(IO_FORMATS),fmt_$(f))
IOA_OBJS := $(foreach s,$(IO_SRCS),$(B)/ioA/$(s).o)
IOB_OBJS := $(foreach s,$(IO_SRCS),$(B)/ioB/$(s).o)
IO_LIBS := -Wl,--wrap=fopen -Wl,--wrap=TIFFOpen -lpng -ljpeg -ltiffxx -ltiff -lz
IO_DEFS := -DBOOST_GIL_IO_ENABLE_GRAY_ALPHA

.PHONY: build mem io clean
build: mem io
io: $(B)/bin/iosimA $(B)/bin/iosimB

$(B)/ioA/%.o: sim/io/%.cpp Makefile
	@mkdir -p $(@D)
	@$(CXX) -std=c++14 $(COMMON) $(IO_DEFS) -DSIM_POISON_BYTE=0 -ftrivial-auto-var-init=zero -c $< -o $@ 2> $@.log || { cat $@.log | head -60; echo "BUILD-FAIL $@"; exit 1; }
$(B)/ioB/%.o: sim/io/%.cpp Makefile
	@mkdir -p $(@D)
	@$(CXX) -std=c++14 $(COMMON) $(IO_DEFS) -DSIM_POISON_BYTE=190 -ftrivial-auto-var-init=pattern -c $< -o $@ 2> $@.log || { cat $@.log | head -60; echo "BUILD-FAIL $@"; exit 1; }
# un-instrumented build for the valgrind cross-check of the A/B oracle (tools/valgrind_check.py)
IOP_OBJS := $(foreach s,$(IO_SRCS),$(B)/ioP/$(s).o)
$(B)/ioP/%.o: sim/io/%.cpp Makefile
	@mkdir -p $(@D)
	@$(CXX) -std=c++14 -O1 -g1 -DNDEBUG -I$(REPO)/include -Wno-deprecated-declarations -MMD -MP $(IO_DEFS) -DSIM_POISON_BYTE=0 -DSIM_NO_POISON_FILL -c $< -o $@ 2> $@.log || { cat $@.log | head -60; echo "BUILD-FAIL $@"; exit 1; }
$(B)/bin/iosimP: $(IOP_OBJS)
	@mkdir -p $(@D)
	@$(CXX) $^ -o $@ $(IO_LIBS)
ioplain: $(B)/bin/iosimP

# coverage build for reach probes (tools/reach.py): which reader/writer code the workloads execute
IOC_OBJS := $(foreach s,$(IO_SRCS),$(B)/ioC/$(s).o)
$(B)/ioC/%.o: sim/io/%.cpp Makefile
	@mkdir -p $(@D)
	@$(CXX) -std=c++14 -O0 -g0 --coverage -DNDEBUG -I$(REPO)/include -Wno-deprecated-declarations -MMD -MP $(IO_DEFS) -DSIM_POISON_BYTE=0 -c $< -o $@ 2> $@.log || { cat $@.log | head -60; echo "BUILD-FAIL $@"; exit 1; }
$(B)/bin/iosimC: $(IOC_OBJS)
	@mkdir -p $(@D)
	@$(CXX) --coverage $^ -o $@ $(IO_LIBS)
iocov: $(B)/bin/iosimC

$(B)/bin/iosimA: $(IOA_OBJS)
	@mkdir -p $(@D)
	@$(CXX) $(SAN) $^ -o $@ $(IO_LIBS)
$(B)/bin/iosimB: $(IOB_OBJS)
	@mkdir -p $(@D)
	@$(CXX) $(SAN) $^ -o $@ $(IO_LIBS)
mem: $(B)/bin/memsim14 $(B)/bin/memsim17

$(B)/mem14/%.o: sim/mem/%.cpp Makefile
	@mkdir -p $(@D)
	@$(CXX) -std=c++14 $(COMMON) $(MEM_SAN) -c $< -o $@ 2> $@.log || { cat $@.log | head -60; echo "BUILD-FAIL $@"; exit 1; }
$(B)/mem17/%.o: sim/mem/%.cpp Makefile
	@mkdir -p $(@D)
	@$(CXX) -std=c++17 $(COMMON) $(MEM_SAN) -c $< -o $@ 2> $@.log || { cat $@.log | head -60; echo "BUILD-FAIL $@"; exit 1; }
$(B)/bin/memsim14: $(MEM14_OBJS)
	@mkdir -p $(@D)
	@$(CXX) $(SAN) $^ -o $@
$(B)/bin/memsim17: $(MEM17_OBJS)
	@mkdir -p $(@D)
	@$(CXX) $(SAN) $^ -o $@

clean:
	rm -rf $(B)

-include $(wildcard $(B)/*/*.d)
