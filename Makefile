# Builds the simulation engines from /repo's *current working tree* (headers only: -I/repo/include first).
REPO ?= /repo
B := build
CXX := g++
SAN := -fsanitize=address,undefined -fno-sanitize=pointer-overflow,nonnull-attribute,null -fno-sanitize-recover=undefined -fno-omit-frame-pointer
COMMON := -O1 -g1 -DNDEBUG -I$(REPO)/include -Wno-deprecated-declarations -MMD -MP $(SAN)
MEM_GROUPS := a b c d e f
MEM14_OBJS := $(B)/mem14/memsim_main.o $(foreach g,$(MEM_GROUPS),$(B)/mem14/group_$(g).o)
MEM17_OBJS := $(B)/mem17/memsim_main.o $(foreach g,$(MEM_GROUPS),$(B)/mem17/group_$(g).o)

.PHONY: build mem clean
build: mem
mem: $(B)/bin/memsim14 $(B)/bin/memsim17

$(B)/mem14/%.o: sim/mem/%.cpp Makefile
	@mkdir -p $(@D)
	@$(CXX) -std=c++14 $(COMMON) -c $< -o $@ 2> $@.log || { cat $@.log | head -60; echo "BUILD-FAIL $@"; exit 1; }
$(B)/mem17/%.o: sim/mem/%.cpp Makefile
	@mkdir -p $(@D)
	@$(CXX) -std=c++17 $(COMMON) -c $< -o $@ 2> $@.log || { cat $@.log | head -60; echo "BUILD-FAIL $@"; exit 1; }
$(B)/bin/memsim14: $(MEM14_OBJS)
	@mkdir -p $(@D)
	@$(CXX) $(SAN) $^ -o $@
$(B)/bin/memsim17: $(MEM17_OBJS)
	@mkdir -p $(@D)
	@$(CXX) $(SAN) $^ -o $@

clean:
	rm -rf $(B)

-include $(wildcard $(B)/*/*.d)
