#include "group.hpp"
SIM_GROUP(c, cmyk8p, cmyk8i, rgb16p)
