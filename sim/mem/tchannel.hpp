// A non-trivial channel type with lifetime registry and injectable throwing construction, for planar images of
// pixel<TCh, rgb>: exercises the planar branches of default_construct / uninitialized_fill / uninitialized_copy /
// destruct_pixels and their roll-backs (C10 anchors algorithm.hpp).
#pragma once
#include "tracked.hpp"
#include "kinds.hpp"

namespace sim {

struct TCh
{
    using value_type = TCh;
    using reference = TCh&;
    using pointer = TCh*;
    using const_reference = TCh const&;
    using const_pointer = TCh const*;
    static constexpr bool is_mutable = true;
    static TCh min_value() { return TCh((int64_t)0); }
    static TCh max_value() { return TCh((int64_t)255); }

    uint32_t v;

    TCh() : v(0)
    {
        auto L = lifetime();
        if (!L->quiet) { ++L->n_ctor; if (L->ctor_fault.hit()) throw ElemFault(); }
        L->born(this, "default");
    }
    explicit TCh(int64_t x) : v((uint32_t)x) { lifetime()->born(this, "value"); } // harness-side: never a fault point
    TCh(TCh const& o) : v(o.v)
    {
        auto L = lifetime();
        L->used(&o, "copy-from");
        if (!L->quiet) { ++L->n_copy; if (L->copy_fault.hit()) throw ElemFault(); }
        L->born(this, "copy");
    }
    TCh& operator=(TCh const& o)
    {
        auto L = lifetime();
        L->used(&o, "assign-from"); L->used(this, "assign-to");
        if (!L->quiet) { ++L->n_assign; if (L->assign_fault.hit()) throw ElemFault(); }
        v = o.v;
        return *this;
    }
    ~TCh() { lifetime()->died(this); }
    explicit operator double() const { lifetime()->used(this, "read"); return (double)v; }
    friend bool operator==(TCh const& a, TCh const& b) { return a.v == b.v; }
    friend bool operator!=(TCh const& a, TCh const& b) { return a.v != b.v; }
    friend bool operator<(TCh const& a, TCh const& b) { return a.v < b.v; }
};

using tch_pixel_t = gil::pixel<TCh, gil::rgb_layout_t>;

template <bool Planar> struct TChKindBase
{
    using pixel_t = tch_pixel_t;
    static constexpr bool planar = Planar;
    static constexpr bool is_tracked = true;  // element lifetime registry on; counts are per channel object
    static constexpr int nchan = 3;
    static constexpr bool nth_ok = false;
    static constexpr int chan_align = (int)alignof(TCh);
    static constexpr bool bit_aligned = false;
    static constexpr int objects_per_pixel = 3;
    template <class A> using image_t = gil::image<tch_pixel_t, Planar, A>;
    using value_t = tch_pixel_t;
    static value_t make(uint64_t v)
    {
        QuietScope q;
        value_t p;
        gil::at_c<0>(p).v = (uint32_t)(v % 251); gil::at_c<1>(p).v = (uint32_t)((v >> 8) % 251); gil::at_c<2>(p).v = (uint32_t)((v >> 16) % 251);
        return p;
    }
    struct Fill
    {
        value_t val;
        explicit Fill(uint64_t v) : val(make(v)) {}
        tch_pixel_t const& get() const { return val; }
    };
    template <class Ref> static uint64_t digest(Ref const& r)
    {
        Hash h;
        h.u64((uint64_t)(double)gil::at_c<0>(r)); h.u64((uint64_t)(double)gil::at_c<1>(r)); h.u64((uint64_t)(double)gil::at_c<2>(r));
        return h.h;
    }
};
struct tchp : TChKindBase<true> { static char const* name() { return "tchp"; } };
struct tchi : TChKindBase<false> { static char const* name() { return "tchi"; } };

} // namespace sim

namespace sim {
// converting copy / assignment between the interleaved and the planar organisation of the same non-trivial pixel:
// uninitialized_copy_aux(interleaved_to_planar) and (mixed_to_interleaved)
template <> struct Partner<tchp> { using type = tchi; };
template <> struct Partner<tchi> { using type = tchp; };
} // namespace sim
