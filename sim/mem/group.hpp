// One translation unit per kind group: instantiates Engine<K,Tr> for its kinds x 3 allocator traits.
#pragma once
#include "memsim.hpp"

namespace sim {

struct KindInfo { char const* name; GenCfg cfg; };

template <class K, class Tr>
bool run_one(Json const& plan, RunOut& out)
{
    std::unique_ptr<Engine<K, Tr>> e(new Engine<K, Tr>());
    e->run(plan);
    out = std::move(e->out);
    return true;
}

template <class K>
bool run_kind(std::string const& kind, std::string const& alloc, Json const& plan, RunOut& out)
{
    if (kind != K::name()) return false;
    if (alloc == AlwaysEqual::name) return run_one<K, AlwaysEqual>(plan, out);
    if (alloc == Propagate::name) return run_one<K, Propagate>(plan, out);
    if (alloc == NoPropagate::name) return run_one<K, NoPropagate>(plan, out);
#if __cplusplus >= 201703L
    if (alloc == Pmr::name) return run_one<K, Pmr>(plan, out);
#endif
    return false;
}

template <class K> KindInfo kind_info()
{
    KindInfo i; i.name = K::name();
    i.cfg.has_partner = !std::is_void<typename Partner<K>::type>::value;
    i.cfg.tracked = K::is_tracked; i.cfg.planar = K::planar; i.cfg.chan_align = K::chan_align; i.cfg.nchan = K::nchan;
    return i;
}

} // namespace sim

#define SIM_GROUP(NAME, ...)                                                                                   \
    namespace sim {                                                                                            \
    template <class... Ks> struct GroupImpl_##NAME                                                             \
    {                                                                                                          \
        static bool run(std::string const& kind, std::string const& alloc, Json const& plan, RunOut& out)      \
        {                                                                                                      \
            bool ok = false;                                                                                   \
            int dummy[] = {(ok = ok || run_kind<Ks>(kind, alloc, plan, out), 0)...};                           \
            (void)dummy;                                                                                       \
            return ok;                                                                                         \
        }                                                                                                      \
        static void list(std::vector<KindInfo>& v)                                                             \
        {                                                                                                      \
            int dummy[] = {(v.push_back(kind_info<Ks>()), 0)...};                                              \
            (void)dummy;                                                                                       \
        }                                                                                                      \
    };                                                                                                         \
    bool group_run_##NAME(std::string const& k, std::string const& a, Json const& p, RunOut& o)                \
    { return GroupImpl_##NAME<__VA_ARGS__>::run(k, a, p, o); }                                                 \
    void group_list_##NAME(std::vector<KindInfo>& v) { GroupImpl_##NAME<__VA_ARGS__>::list(v); }               \
    }
