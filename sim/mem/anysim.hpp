// memsim for any_image<...>: histories of construct / copy / move / assign (same and different alternative) /
// recreate / swap / destroy on run-time typed images whose alternatives use a simulated allocator (C10 anchors
// extension/dynamic_image/any_image.hpp).  Same ledger, same plan format, same RunOut as Engine<K,Tr>.
#pragma once
#include "memsim.hpp"
#include <boost/gil/extension/dynamic_image/any_image.hpp>

namespace sim {

struct anykind { static char const* name() { return "any3"; } };

template <class Tr>
struct AnyEngine
{
    using AO = AllocOps<Tr>;
    using A = typename AO::type;
    using I0 = gil::image<gil::rgb8_pixel_t, false, A>;
    using I1 = gil::image<gil::gray16_pixel_t, false, A>;
    using I2 = gil::image<gil::rgb8_pixel_t, true, A>;
    using Any = gil::any_image<I0, I1, I2>;

    static constexpr int NS = 4;
    struct Model { bool alive = false; int type = 0; std::ptrdiff_t w = 0, h = 0; std::vector<uint64_t> vals; };
    Any* img[NS] = {};
    Model mod[NS];
    World W;
    Lifetime L;
    RunOut out;
    Hash trace, dig;
    std::string site;
    int cur_idx = 0;

    AnyEngine()
    {
        world() = &W; lifetime() = &L;
        W.report = &out.rep; L.report = &out.rep; L.tracking = false;
        AO::begin_run();
    }
    ~AnyEngine()
    {
        for (auto& p : img) { delete p; p = nullptr; }
        W.release_all();
        world() = nullptr; lifetime() = nullptr;
    }
    void viol(char const* cls, std::string d) { out.rep.add(cls, site, std::move(d)); }

    struct ReadVals
    {
        using result_type = void;
        std::vector<uint64_t>* out;
        template <class V> void operator()(V const& v) const
        {
            using value_t = typename V::value_type;
            for (std::ptrdiff_t y = 0; y < v.height(); ++y)
                for (std::ptrdiff_t x = 0; x < v.width(); ++x)
                {
                    Hash h; value_t p(v(x, y));
                    gil::static_for_each(p, ChanHash{&h});
                    out->push_back(h.h);
                }
        }
    };
    struct WriteVals
    {
        using result_type = void;
        uint64_t salt;
        template <class V> void operator()(V const& v) const
        {
            using value_t = typename V::value_type;
            for (std::ptrdiff_t y = 0; y < v.height(); ++y)
                for (std::ptrdiff_t x = 0; x < v.width(); ++x)
                {
                    value_t p;
                    gil::static_for_each(p, ChanSet{mix(salt, (uint64_t)(y * 4099 + x))});
                    v(x, y) = p;
                }
        }
    };
    struct Extents
    {
        using result_type = void;
        std::vector<Extent>* ex; int* arena;
        template <class Im> void operator()(Im const& im) const
        {
            *arena = AllocOps<Tr>::arena_of(im.allocator());
            auto const& v = im._view;
            for (std::ptrdiff_t y = 0; y < v.height() && v.width() > 0; ++y) it_extents(v.row_begin(y), v.width(), *ex);
        }
    };

    std::vector<uint64_t> read_vals(Any const& a) { std::vector<uint64_t> r; boost::variant2::visit(ReadVals{&r}, gil::const_view(a)); return r; }
    void adopt(Model& m, Any& a) { m.alive = true; m.type = (int)a.index(); m.w = a.width(); m.h = a.height(); m.vals = read_vals(a); }
    void normalise(Model& m, Any& a, uint64_t salt) { boost::variant2::visit(WriteVals{salt}, gil::view(a)); adopt(m, a); }

    int pick_live(int64_t want) const
    {
        int c = 0; for (auto const& m : mod) c += m.alive;
        if (!c) return -1;
        int k = (int)(((want % c) + c) % c);
        for (int i = 0; i < NS; ++i) if (mod[i].alive && k-- == 0) return i;
        return -1;
    }
    void kill(int s) { delete img[s]; img[s] = nullptr; mod[s] = Model(); }
    void delete_leak(int s) { img[s] = nullptr; mod[s] = Model(); } // object in an invalid state: never touched again

    void check_all()
    {
        std::vector<Block const*> owned;
        int live = 0, users[8] = {};
        for (int s = 0; s < NS; ++s)
        {
            if (!mod[s].alive) continue;
            ++live;
            Any& a = *img[s];
            std::string who = "slot" + std::to_string(s);
            if ((int)a.index() != mod[s].type) { viol("model:type", who + " holds alternative " + std::to_string(a.index()) + ", model " + std::to_string(mod[s].type)); continue; }
            if (a.width() != mod[s].w || a.height() != mod[s].h) { viol("model:dims", who + " dims differ from model"); continue; }
            std::vector<Extent> ex; int arena = 0;
            boost::variant2::visit(Extents{&ex, &arena}, a);
            ++users[arena & 7];
            if (!ex.empty())
            {
                Block const* b0 = W.find_live((void const*)ex[0].lo);
                if (!b0) { viol(W.find_any((void const*)ex[0].lo) ? "ledger:storage-freed" : "ledger:storage-unowned", who + " pixel storage is not inside a live block"); continue; }
                bool bad = false;
                for (auto const& e : ex) if (e.lo < (uintptr_t)b0->ptr || e.hi > (uintptr_t)b0->ptr + b0->n) bad = true;
                if (bad) { viol("ledger:storage-outside-block", who + " row extent leaves its block"); continue; }
                if (b0->arena != arena) viol("ledger:wrong-allocator", who + " storage block belongs to arena " + std::to_string(b0->arena) + ", allocator is arena " + std::to_string(arena));
                for (auto o : owned) if (o == b0) viol("ledger:shared-block", who + " shares its block with another image");
                owned.push_back(b0);
            }
            auto real = read_vals(a);
            if (real != mod[s].vals) viol("model:pixel-mismatch", who + " pixels differ from model");
        }
        for (int a = 0; a < 3; ++a)
            if (W.live_blocks(a) > users[a]) viol("ledger:wrong-allocator", "arena " + std::to_string(a) + " holds more live blocks than images using it");
        if (W.live_blocks() > live) viol("ledger:leak", std::to_string(W.live_blocks()) + " live blocks, " + std::to_string(live) + " live images");
        W.check_all_canaries();
    }

    // "row alignment holds for every row start" (after construction with an alignment and after recreate)
    void check_row_alignment(Any const& a, size_t align, char const* who)
    {
        if (align == 0) return;
        ++out.align_checked;
        std::vector<Extent> ex; int arena = 0;
        boost::variant2::visit(Extents{&ex, &arena}, a);
        for (auto const& e : ex)
            if (e.lo % align != 0 || e.bit != 0)
            {
                viol("model:row-alignment", std::string(who) + ": a row start is not aligned to " + std::to_string(align));
                return;
            }
    }

    Any* make(Json const& op)
    {
        std::ptrdiff_t w = (std::ptrdiff_t)op.num("w"), h = (std::ptrdiff_t)op.num("h");
        size_t al = (size_t)op.num("align");
        A a = AO::make((int)(op.num("arena") % 3));
        switch (op.num("type") % 3)
        {
        case 0: return new Any(I0(w, h, al, a));
        case 1: return new Any(I1(w, h, al, a));
        default: return new Any(I2(w, h, al, a));
        }
    }

    int thr_t = -1, thr_s = -1;
    void dispatch(std::string const& k, Json const& op)
    {
        thr_t = thr_s = -1;
        if (k == "ctor_default" || k == "ctor_dims" || k == "ctor_fill")
        {
            int t = (int)(op.num("slot") % NS);
            if (mod[t].alive) kill(t);
            if (k == "ctor_default") { img[t] = new Any(); adopt(mod[t], *img[t]); }
            else
            {
                img[t] = make(op);
                check_row_alignment(*img[t], (size_t)op.num("align"), "any_image constructor");
                normalise(mod[t], *img[t], 0xA11u + (uint64_t)cur_idx);
            }
        }
        else if (k == "copy_ctor" || k == "move_ctor")
        {
            int s = pick_live(op.num("src"));
            if (s < 0) return;
            int t = (int)(op.num("slot") % NS);
            if (t == s) t = (t + 1) % NS;
            if (mod[t].alive) kill(t);
            if (k == "copy_ctor")
            {
                img[t] = new Any(*img[s]); mod[t] = mod[s];
                ++out.eq_checked;
                if (!(*img[t] == *img[s])) viol("model:copy-not-equal", "any_image copy != source");
            }
            else { img[t] = new Any(std::move(*img[s])); mod[t] = mod[s]; normalise(mod[s], *img[s], 0xA12u + (uint64_t)cur_idx); }
        }
        else if (k == "copy_assign" || k == "move_assign")
        {
            int s = pick_live(op.num("src")), t = pick_live(op.num("dst"));
            if (s < 0 || t < 0) return;
            thr_t = t; thr_s = s;
            Model ms = mod[s];
            if (k == "copy_assign")
            {
                *img[t] = *img[s]; mod[t] = ms;
                ++out.eq_checked;
                if (!(*img[t] == *img[s])) viol("model:copy-not-equal", "any_image copy assignment != source");
            }
            else
            {
                *img[t] = std::move(*img[s]);
                if (t != s) { mod[t] = ms; normalise(mod[s], *img[s], 0xA13u + (uint64_t)cur_idx); }
                else normalise(mod[t], *img[t], 0xA14u + (uint64_t)cur_idx);
            }
        }
        else if (k == "recreate")
        {
            int t = pick_live(op.num("dst"));
            if (t < 0) return;
            thr_t = t;
            std::ptrdiff_t w = (std::ptrdiff_t)op.num("w"), h = (std::ptrdiff_t)op.num("h");
            int type = mod[t].type;
            unsigned al = (unsigned)op.num("align");
            img[t]->recreate(w, h, al);
            if ((int)img[t]->index() != type) viol("model:type", "recreate changed the held alternative");
            if (img[t]->width() != w || img[t]->height() != h) viol("model:dims", "any_image::recreate left other dimensions than requested");
            check_row_alignment(*img[t], al, "any_image::recreate");
            normalise(mod[t], *img[t], 0xA15u + (uint64_t)cur_idx);
        }
        else if (k == "swap")
        {
            int a = pick_live(op.num("src")), b = pick_live(op.num("dst"));
            if (a < 0 || b < 0) return;
            if (mod[a].type == mod[b].type && Tr::stateful && !Tr::propagate)
            {
                int aa = 0, ab = 0; std::vector<Extent> ex;
                boost::variant2::visit(Extents{&ex, &aa}, *img[a]); boost::variant2::visit(Extents{&ex, &ab}, *img[b]);
                if (aa != ab) return; // swapping unequal non-propagating allocators: precondition
            }
            thr_t = a; thr_s = b; // a swap that throws half way leaves both in a valid but unspecified state
            using std::swap;
            swap(*img[a], *img[b]);
            if (mod[a].type == mod[b].type) std::swap(mod[a], mod[b]);
            else { adopt(mod[a], *img[a]); adopt(mod[b], *img[b]); } // variant swap of different alternatives goes through moves
        }
        else if (k == "destroy")
        {
            int t = pick_live(op.num("dst"));
            if (t >= 0) kill(t);
        }
        else if (k == "write_pixel" || k == "fill")
        {
            int t = pick_live(op.num("dst"));
            if (t >= 0) normalise(mod[t], *img[t], (uint64_t)op.num("val"));
        }
    }

    void exec(Json const& op, int idx)
    {
        std::string kind = op.str("op");
        site = "any:" + kind; cur_idx = idx;
        W.cur_site = site.c_str(); W.cur_op = idx;
        W.place.right = op.num("left") == 0;
        W.place.slack = (unsigned)(op.num("slack") % 5) * 16u;
        W.place.res = (unsigned)(op.num("res") % 16);
        W.alloc_fault.reset();
        Json const& f = op.at("fault");
        if (!f.is_null() && f.str("kind") == "alloc") W.alloc_fault.arm((long)f.num("k"));
        long a0 = W.n_alloc; int threw = 0;
        try { dispatch(kind, op); }
        catch (std::bad_alloc const&) { threw = 1; }
        catch (std::exception const& e) { threw = 3; viol("model:unexpected-exception", e.what()); }
        catch (...) { threw = 3; viol("model:unexpected-exception", "unknown exception"); }
        OpCount oc; oc.alloc = W.n_alloc - a0; oc.threw = threw != 0;
        bool fired = W.alloc_fault.fired;
        if (fired) ++out.faults_fired_alloc;
        W.alloc_fault.reset();
        if (threw == 1 && !fired) viol("model:unexpected-exception", "bad_alloc although no fault was injected");
        if (!threw && fired) viol("model:fault-swallowed", "an injected allocation failure did not propagate");
        if (threw)
        {
            ++out.ops_threw;
            // "the target still holds a valid image": it holds one of its alternatives ...
            for (int q : {thr_t, thr_s})
                if (q >= 0 && img[q] && img[q]->index() >= 3)
                {
                    viol("model:invalid-after-throw", "any_image holds no alternative (index " + std::to_string((long)img[q]->index()) + ") after an operation that threw");
                    delete_leak(q);
                }
            // ... re-adopt (type and dims read back), contents unspecified
            if (thr_t >= 0 && img[thr_t]) normalise(mod[thr_t], *img[thr_t], 0xFA1u + (uint64_t)idx);
            if (thr_s >= 0 && thr_s != thr_t && img[thr_s]) normalise(mod[thr_s], *img[thr_s], 0xFA2u + (uint64_t)idx);
        }
        out.counts.push_back(oc);
        ++out.ops_executed;
        if (threw) { site += "+fault"; W.cur_site = site.c_str(); }
        check_all();
        trace.u64((uint64_t)idx); trace.u64((uint64_t)oc.alloc); trace.u64((uint64_t)W.n_dealloc); trace.u64((uint64_t)threw);
        for (auto const& m : mod) { dig.u64(m.alive ? (uint64_t)(m.type * 1000003 + m.w * 1000 + m.h) : 0xDEAD); for (auto v : m.vals) dig.u64(v); }
    }

    RunOut& run(Json const& plan)
    {
        int idx = 0;
        for (auto const& op : plan.at("ops").a)
        {
            exec(op, idx++);
            if (out.rep.any()) break;
        }
        if (!out.rep.any())
        {
            for (auto const& m : mod) out.abstract += m.alive ? ("t" + std::to_string(m.type) + (m.w * m.h == 0 ? "e;" : "p;")) : "-;";
            site = "any:teardown"; W.cur_site = site.c_str(); W.cur_op = idx;
            for (int s = 0; s < NS; ++s) if (mod[s].alive) kill(s);
            if (W.live_blocks() != 0) viol("ledger:leak", std::to_string(W.live_blocks()) + " blocks still live after all images were destroyed");
        }
        out.digest = dig.h; out.trace = trace.h; out.n_alloc = W.n_alloc; out.n_dealloc = W.n_dealloc;
        return out;
    }
};

} // namespace sim
