// any_image histories (C10 anchors extension/dynamic_image/any_image.hpp)
#include "group.hpp"
#include "anysim.hpp"

namespace sim {

template <class Tr> static bool run_any(Json const& plan, RunOut& out)
{
    std::unique_ptr<AnyEngine<Tr>> e(new AnyEngine<Tr>());
    e->run(plan);
    out = std::move(e->out);
    return true;
}

bool group_run_g(std::string const& kind, std::string const& alloc, Json const& plan, RunOut& out)
{
    if (kind != anykind::name()) return false;
    if (alloc == AlwaysEqual::name) return run_any<AlwaysEqual>(plan, out);
    if (alloc == Propagate::name) return run_any<Propagate>(plan, out);
    if (alloc == NoPropagate::name) return run_any<NoPropagate>(plan, out);
#if __cplusplus >= 201703L
    if (alloc == Pmr::name) return run_any<Pmr>(plan, out);
#endif
    return false;
}
void group_list_g(std::vector<KindInfo>& v)
{
    KindInfo i; i.name = anykind::name(); i.cfg.chan_align = 2; i.cfg.nchan = 3; i.cfg.any = true;
    v.push_back(i);
}

} // namespace sim
