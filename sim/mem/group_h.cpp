// planar / interleaved images of pixels with a non-trivial channel type
#include "tchannel.hpp"
#include "group.hpp"
SIM_GROUP(h, tchp, tchi)
