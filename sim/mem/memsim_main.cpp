// memsim driver: plan generation, fault enumeration, worker loop, replay.
#include "../core/json.hpp"
#include "../core/prng.hpp"
#include "../core/proc.hpp"
#include "memsim.hpp"
#include "group.hpp"
#include <cstdio>
#include <cstring>
#include <string>
#include <vector>

SIM_SANITIZER_DEFAULTS("")

namespace sim {
#define G(N) bool group_run_##N(std::string const&, std::string const&, Json const&, RunOut&); void group_list_##N(std::vector<KindInfo>&);
G(a) G(b) G(c) G(d) G(e) G(f) G(g) G(h)
#undef G

static bool run_plan(Json const& plan, RunOut& out)
{
    std::string k = plan.str("kind"), a = plan.str("alloc");
    return group_run_a(k, a, plan, out) || group_run_b(k, a, plan, out) || group_run_c(k, a, plan, out) ||
           group_run_d(k, a, plan, out) || group_run_e(k, a, plan, out) || group_run_f(k, a, plan, out) || group_run_g(k, a, plan, out) ||
           group_run_h(k, a, plan, out);
}
static std::vector<KindInfo> all_kinds()
{
    std::vector<KindInfo> v;
    group_list_a(v); group_list_b(v); group_list_c(v); group_list_d(v); group_list_e(v); group_list_f(v); group_list_g(v); group_list_h(v);
    return v;
}

static char const* ALLOCS[3] = {AlwaysEqual::name, Propagate::name, NoPropagate::name};

static Json make_plan(uint64_t base_seed, std::string const& profile, long i, std::vector<KindInfo> const& kinds)
{
    uint64_t s = mix(base_seed ^ (profile == "c01" ? 0xC01C01ull : 0xC10C10ull), (uint64_t)i);
    Rng r(s);
    size_t kidx = r.below(kinds.size());
    if (profile != "c01" && r.chance(1, 5))
    {   // element construction failures only exist for the kinds with a non-trivial element: weight them up in C10 histories
        std::vector<size_t> tr;
        for (size_t q = 0; q < kinds.size(); ++q) if (kinds[q].cfg.tracked) tr.push_back(q);
        if (!tr.empty()) kidx = tr[r.below(tr.size())];
    }
    KindInfo const& ki = kinds[kidx];
    // non-propagating unequal allocators are where the protocol is hardest: weight them up
    unsigned a = (unsigned)r.below(std_version() >= 17 ? 7 : 5);
    char const* al = a < 1 ? ALLOCS[0] : a < 3 ? ALLOCS[1] : a < 5 ? ALLOCS[2] : "pmr";
    GenCfg cfg = ki.cfg;
    cfg.stateful = a >= 1;
    Json p = gen_plan(r.next(), profile, ki.name, al, cfg);
    p.set("index", (long long)i);
    return p;
}

struct FaultPoint { int op; char const* kind; long k; };

static std::vector<FaultPoint> fault_points(Json const& plan, RunOut const& base, size_t cap, uint64_t seed)
{
    std::vector<FaultPoint> pts;
    auto const& ops = plan.at("ops").a;
    for (size_t i = 0; i < base.counts.size() && i < ops.size(); ++i)
    {
        std::string k = ops[i].str("op");
        if (k == "sweep" || k == "ext_sweep" || k == "write_pixel" || k == "fill" || k == "copy_pixels") continue; // harness-side traffic only
        auto const& c = base.counts[i];
        for (long j = 0; j < c.alloc; ++j) pts.push_back({(int)i, "alloc", j});
        for (long j = 0; j < c.ctor; ++j) pts.push_back({(int)i, "ctor", j});
        for (long j = 0; j < c.copy; ++j) pts.push_back({(int)i, "copy", j});
        for (long j = 0; j < c.assign; ++j) pts.push_back({(int)i, "assign", j});
    }
    if (pts.size() > cap)
    {
        // stratified: keep every alloc point, then an evenly spaced + seeded subset of element points
        std::vector<FaultPoint> keep, rest;
        for (auto const& p : pts) (strcmp(p.kind, "alloc") == 0 ? keep : rest).push_back(p);
        Rng r(seed);
        size_t room = cap > keep.size() ? cap - keep.size() : 0;
        for (size_t n = 0; n < room && !rest.empty(); ++n)
        {
            size_t idx = (n * rest.size()) / room;
            if (r.chance(1, 3)) idx = r.below(rest.size());
            keep.push_back(rest[idx]);
        }
        pts.swap(keep);
    }
    return pts;
}

static Json with_fault(Json plan, FaultPoint const& fp)
{
    Json f = Json::object();
    f.set("kind", fp.kind); f.set("k", (long long)fp.k);
    for (auto& kv : plan.o)
        if (kv.first == "ops") kv.second.a[(size_t)fp.op].set("fault", f);
    return plan;
}

static Json violation_json(RunOut const& o)
{
    Json v = Json::object();
    v.set("cls", o.rep.v[0].cls); v.set("site", o.rep.v[0].site); v.set("detail", o.rep.v[0].detail);
    return v;
}

static Json result_json(RunOut const& o)
{
    Json j = Json::object();
    j.set("ok", !o.rep.any());
    if (o.rep.any())
    {
        j.set("violation", violation_json(o));
        Json all = Json::array();
        for (auto const& v : o.rep.v) { Json x = Json::object(); x.set("cls", v.cls); x.set("site", v.site); x.set("detail", v.detail); all.push(x); }
        j.set("all", all);
    }
    char b[32];
    snprintf(b, sizeof b, "%016llx", (unsigned long long)o.digest); j.set("digest", b);
    snprintf(b, sizeof b, "%016llx", (unsigned long long)o.trace); j.set("trace", b);
    j.set("ops", (long long)o.ops_executed); j.set("threw", (long long)o.ops_threw);
    j.set("allocs", (long long)o.n_alloc); j.set("deallocs", (long long)o.n_dealloc);
    j.set("fired_alloc", (long long)o.faults_fired_alloc); j.set("fired_elem", (long long)o.faults_fired_elem);
    return j;
}

} // namespace sim

using namespace sim;

static void usage()
{
    fprintf(stderr, "memsim --list | --gen I [--sub J] | --replay FILE | --worker --range A:B   [--profile c10|c01] [--seed S] [--maxfaults N] [--nofaults]\n");
    exit(2);
}

int main(int argc, char** argv)
{
    disable_aslr_and_reexec(argv);
    install_segv_handler();
    std::string mode, profile = "c10", replay;
    uint64_t seed = 1; long a = 0, b = 0, gen_i = 0, gen_fault = 0; size_t maxfaults = 400; bool nofaults = false;
    for (int i = 1; i < argc; ++i)
    {
        std::string s = argv[i];
        auto next = [&]() -> char const* { if (i + 1 >= argc) usage(); return argv[++i]; };
        if (s == "--list") mode = "list";
        else if (s == "--gen") { mode = "gen"; gen_i = atol(next()); }
        else if (s == "--sub") gen_fault = atol(next());
        else if (s == "--replay") { mode = "replay"; replay = next(); }
        else if (s == "--worker") mode = "worker";
        else if (s == "--range") { char const* r = next(); a = atol(r); char const* c = strchr(r, ':'); b = c ? atol(c + 1) : a + 1; }
        else if (s == "--profile") profile = next();
        else if (s == "--seed") seed = strtoull(next(), nullptr, 10);
        else if (s == "--maxfaults") maxfaults = (size_t)atol(next());
        else if (s == "--nofaults") nofaults = true;
        else usage();
    }
    auto kinds = all_kinds();
    if (mode == "list")
    {
        for (auto const& k : kinds) printf("%s\n", k.name);
        return 0;
    }
    if (mode == "gen")
    {
        Json p = make_plan(seed, profile, gen_i, kinds);
        if (gen_fault > 0)
        {
            RunOut base;
            run_plan(p, base);
            auto pts = fault_points(p, base, maxfaults, mix(seed, (uint64_t)gen_i));
            if ((size_t)gen_fault <= pts.size()) p = with_fault(p, pts[(size_t)gen_fault - 1]);
        }
        else if (gen_fault < 0)
        {
            RunOut base;
            run_plan(p, base);
            Rng r(mix(seed ^ 0xFA17, (uint64_t)gen_i));
            auto pts = fault_points(p, base, 100000, 0);
            std::vector<FaultPoint> ap;
            for (auto const& x : pts) if (!strcmp(x.kind, "alloc")) ap.push_back(x);
            Json pf = p;
            for (int t = 0; t < -gen_fault && !ap.empty(); ++t) pf = with_fault(p, ap[r.below(ap.size())]);
            p = pf;
        }
        printf("%s\n", p.dump().c_str());
        return 0;
    }
    if (mode == "replay")
    {
        Json p = Json::parse_file(replay.c_str());
        RunOut o;
        if (!run_plan(p, o)) { fprintf(stderr, "unknown kind/alloc in plan (std=%d)\n", std_version()); return 2; }
        printf("%s\n", result_json(o).dump().c_str());
        return o.rep.any() ? 10 : 0;
    }
    if (mode == "worker")
    {
        for (long i = a; i < b; ++i)
        {
            Json p = make_plan(seed, profile, i, kinds);
            printf("B %ld 0\n", i); fflush(stdout);
            RunOut base;
            run_plan(p, base);
            Json line = Json::object();
            line.set("i", (long long)i); line.set("kind", p.str("kind")); line.set("alloc", p.str("alloc"));
            line.set("nops", (long long)p.at("ops").a.size());
            long sub = 1, fired_a = base.faults_fired_alloc, fired_e = base.faults_fired_elem, threw = 0, pts_n = 0;
            Json viol; Json vplan;
            Hash all; all.u64(base.digest); all.u64(base.trace);
            Json dbg = Json::array();
            bool debug = getenv("SIM_DEBUG") != nullptr;
            auto note = [&](RunOut const& o) { if (debug) { char b[40]; snprintf(b, sizeof b, "%016llx/%016llx", (unsigned long long)o.digest, (unsigned long long)o.trace); dbg.push(b); } };
            note(base);
            long reuse_c = base.reuse_checked, reuse_h = base.reuse_hits, align_c = base.align_checked, eq_c = base.eq_checked;
            long sw_px = base.sweep.pixels, sw_acc = base.sweep.accessors, sw_v = base.sweep.views;
            long allocs = base.n_alloc;
            if (base.rep.any()) { viol = violation_json(base); vplan = p; }
            else if (!nofaults && profile != "c01")
            {
                auto pts = fault_points(p, base, maxfaults, mix(seed, (uint64_t)i));
                pts_n = (long)pts.size();
                for (size_t j = 0; j < pts.size(); ++j)
                {
                    Json pf = with_fault(p, pts[j]);
                    printf("B %ld %zu\n", i, j + 1); fflush(stdout);
                    RunOut o;
                    run_plan(pf, o);
                    ++sub;
                    fired_a += o.faults_fired_alloc; fired_e += o.faults_fired_elem; threw += o.ops_threw;
                    all.u64(o.digest); all.u64(o.trace);
                    allocs += o.n_alloc;
                    if (o.rep.any()) { viol = violation_json(o); vplan = pf; break; }
                }
            }
            else if (!nofaults && profile == "c01")
            {
                // seeded single allocation faults: the surviving images are then swept by the remaining ops
                Rng r(mix(seed ^ 0xFA17, (uint64_t)i));
                auto pts = fault_points(p, base, 100000, 0);
                std::vector<FaultPoint> ap;
                for (auto const& x : pts) if (!strcmp(x.kind, "alloc")) ap.push_back(x);
                pts_n = 0;
                for (int t = 0; t < 2 && !ap.empty(); ++t)
                {
                    Json pf = with_fault(p, ap[r.below(ap.size())]);
                    ++pts_n;
                    printf("B %ld %d\n", i, -(t + 1)); fflush(stdout);
                    RunOut o;
                    run_plan(pf, o);
                    ++sub;
                    fired_a += o.faults_fired_alloc; threw += o.ops_threw;
                    all.u64(o.digest); all.u64(o.trace); note(o);
                    sw_px += o.sweep.pixels; sw_acc += o.sweep.accessors; sw_v += o.sweep.views;
                    if (o.rep.any()) { viol = violation_json(o); vplan = pf; break; }
                }
            }
            line.set("sub", (long long)sub); line.set("points", (long long)pts_n);
            line.set("fired_alloc", (long long)fired_a); line.set("fired_elem", (long long)fired_e); line.set("threw", (long long)threw);
            line.set("reuse_checked", (long long)reuse_c); line.set("reuse_hits", (long long)reuse_h);
            line.set("align_checked", (long long)align_c); line.set("eq_checked", (long long)eq_c);
            line.set("sweep_pixels", (long long)sw_px); line.set("sweep_accessors", (long long)sw_acc); line.set("sweep_views", (long long)sw_v);
            line.set("allocs", (long long)allocs);
            line.set("abstract", base.abstract);
            char hb[32]; snprintf(hb, sizeof hb, "%016llx", (unsigned long long)all.h); line.set("hash", hb);
            snprintf(hb, sizeof hb, "%016llx", (unsigned long long)base.trace); line.set("trace", hb);
            if (debug) line.set("dbg", dbg);
            if (!viol.is_null()) { line.set("violation", viol); line.set("plan", vplan); }
            printf("R %s\n", line.dump().c_str()); fflush(stdout);
        }
        return 0;
    }
    usage();
    return 2;
}
