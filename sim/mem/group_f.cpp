#include "group.hpp"
SIM_GROUP(f, bgr121, rgb565b, rgb777b)
