// memsim: operation histories on boost::gil::image over a simulated allocator, checked against
// an executable reference model + allocation ledger + element lifetime registry (DESIGN.md 3).
#pragma once
#include "kinds.hpp"
#include "sweep.hpp"
#include "../core/json.hpp"
#include <memory>
#include <algorithm>

namespace sim {

struct OpCount { long alloc = 0, ctor = 0, copy = 0, assign = 0; bool threw = false; };

struct RunOut
{
    Report rep;
    std::vector<OpCount> counts;
    uint64_t digest = 0, trace = 0;
    long faults_fired_alloc = 0, faults_fired_elem = 0;
    long ops_executed = 0, ops_threw = 0;
    long n_alloc = 0, n_dealloc = 0;
    long reuse_checked = 0, reuse_hits = 0, align_checked = 0, deep_checked = 0, eq_checked = 0;
    SweepStats sweep;
    std::string abstract; // abstract state string for distinct-state measure
};

inline int std_version() { return __cplusplus >= 201703L ? 17 : 14; }

template <class K, class Tr>
struct Engine
{
    using AO = AllocOps<Tr>;
    using A = typename AO::type;
    using Image = typename K::template image_t<A>;
    using View = typename Image::view_t;
    using value_t = typename K::value_t;
    using PKraw = typename Partner<K>::type;
    static constexpr bool has_partner = !std::is_void<PKraw>::value;
    using PK = typename std::conditional<has_partner, PKraw, K>::type;
    using PImage = typename PK::template image_t<A>;
    using StepV = typename gil::dynamic_xy_step_transposed_type<View>::type;
    using ScratchImage = typename K::template image_t<std::allocator<unsigned char>>;

    template <class SV> static StepV to_step(SV const& v) { return gil::transposed_view(gil::transposed_view(v)); }
    static constexpr int NS = 4, NP = 2;
    struct Model { bool alive = false; std::ptrdiff_t w = 0, h = 0; std::vector<uint64_t> vals; };
    Image* img[NS] = {};
    Model mod[NS];
    PImage* pimg[NP] = {};
    Model pmod[NP];

    World W;
    Lifetime L;
    RunOut out;
    Hash trace, dig;
    std::string site;
    int cur_idx = 0;

    Engine()
    {
        world() = &W; lifetime() = &L;
        W.report = &out.rep; L.report = &out.rep;
        L.tracking = K::is_tracked;
        AO::begin_run();
    }
    ~Engine()
    {
        for (auto& p : img) { delete p; p = nullptr; }
        for (auto& p : pimg) { delete p; p = nullptr; }
        W.release_all();
        world() = nullptr; lifetime() = nullptr;
    }

    void viol(char const* cls, std::string detail) { out.rep.add(cls, site, std::move(detail)); }

    // ------------------------------------------------------------------ helpers
    template <class Img> static std::vector<uint64_t> read_vals(Img const& im)
    {
        std::vector<uint64_t> r;
        auto v = gil::const_view(im);
        r.reserve((size_t)std::max<std::ptrdiff_t>(0, v.width() * v.height()));
        for (std::ptrdiff_t y = 0; y < v.height(); ++y)
            for (std::ptrdiff_t x = 0; x < v.width(); ++x)
                r.push_back(digest_of(v(x, y)));
        return r;
    }
    template <class R> static uint64_t digest_of(R const& r) { return K::digest(r); }
    static uint64_t val_digest(uint64_t v) { value_t p = K::make(v); return K::digest(p); }

    template <class Img> void adopt(Model& m, Img const& im)
    {
        m.alive = true; m.w = im.width(); m.h = im.height();
        m.vals = read_vals(im);
    }
    // Contents that the statement leaves unspecified (default construction of trivial pixels, recreate without fill
    // value, target of a failed operation, moved-from image) depend on what the storage held before and, for
    // non-power-of-two alignments, on the address residue of the block.  The harness overwrites them with a value
    // derived from the operation index - as a user would before using the image - so that digests stay a function of
    // the plan alone and the writes themselves probe the storage.
    template <class Img> void normalise(Model& m, Img& im, uint64_t salt)
    {
        QuietScope quiet; // harness writes are not fault points of the operation under test
        auto v = gil::view(im);
        for (std::ptrdiff_t y = 0; y < v.height(); ++y)
            for (std::ptrdiff_t x = 0; x < v.width(); ++x)
            {
                value_t p = K::make(mix(salt, (uint64_t)(y * 4099 + x)));
                v(x, y) = p;
            }
        adopt(m, im);
    }
    static int live_count(Model const* m, int n) { int c = 0; for (int i = 0; i < n; ++i) c += m[i].alive; return c; }
    int pick_live(Model const* m, int n, int64_t want) const
    {
        int c = live_count(m, n);
        if (!c) return -1;
        int k = (int)(((want % c) + c) % c);
        for (int i = 0; i < n; ++i) if (m[i].alive && k-- == 0) return i;
        return -1;
    }
    void kill(int s) { delete img[s]; img[s] = nullptr; mod[s] = Model(); }
    void pkill(int s) { delete pimg[s]; pimg[s] = nullptr; pmod[s] = Model(); }

    template <class Img> bool storage_of(Img const& im, std::vector<Extent>& ex)
    {
        auto const& v = im._view;
        if (v.width() <= 0 || v.height() <= 0) return false;
        for (std::ptrdiff_t y = 0; y < v.height(); ++y) it_extents(v.row_begin(y), v.width(), ex);
        return true;
    }

    // model's own formula for the bytes an image of these dims/alignment needs (DESIGN.md 3.3 (5))
    static size_t required_bytes(std::ptrdiff_t w, std::ptrdiff_t h, size_t align)
    {
        using xit = typename View::x_iterator;
        size_t unit_per_byte = gil::byte_to_memunit<xit>::value; // 1 or 8
        size_t row_units = (size_t)w * (size_t)gil::memunit_step(xit());
        if (align > 0)
        {
            size_t au = align * unit_per_byte;
            row_units = (row_units + au - 1) / au * au;
        }
        size_t planes = K::planar ? (size_t)K::nchan : 1;
        size_t units = row_units * (size_t)h * planes;
        return (units + unit_per_byte - 1) / unit_per_byte + (align > 0 ? align - 1 : 0);
    }

    // ------------------------------------------------------------------ invariants after each op
    template <class Img> void check_image(char const* pool, int s, Img const& im, Model const& m, std::vector<Block const*>& owned)
    {
        std::string who = std::string(pool) + std::to_string(s);
        if (im.width() != m.w || im.height() != m.h)
        {
            viol("model:dims", who + " has dims " + std::to_string(im.width()) + "x" + std::to_string(im.height()) +
                 ", model " + std::to_string(m.w) + "x" + std::to_string(m.h));
            return;
        }
        std::vector<Extent> ex;
        if (storage_of(im, ex))
        {
            Block const* b0 = W.find_live((void const*)ex[0].lo);
            int arena = AO::arena_of(im.allocator());
            if (!b0)
            {
                bool freed = W.find_any((void const*)ex[0].lo) != nullptr;
                viol(freed ? "ledger:storage-freed" : "ledger:storage-unowned", who + " pixel storage is not inside a live block");
                return; // do not read pixels
            }
            for (auto const& e : ex)
                if (e.lo < (uintptr_t)b0->ptr || e.hi > (uintptr_t)b0->ptr + b0->n)
                {
                    viol("ledger:storage-outside-block", who + " row extent leaves its block " + World::tag(*b0));
                    return;
                }
            if (b0->arena != arena)
                viol("ledger:wrong-allocator", who + " storage block " + World::tag(*b0) + " belongs to arena " +
                     std::to_string(b0->arena) + " but the image's allocator is arena " + std::to_string(arena));
            for (auto o : owned)
                if (o == b0) viol("ledger:shared-block", who + " shares block " + World::tag(*b0) + " with another image");
            owned.push_back(b0);
        }
        auto real = read_vals(im);
        if (real.size() != m.vals.size()) { viol("model:dims", who + " pixel count differs"); return; }
        for (size_t i = 0; i < real.size(); ++i)
            if (real[i] != m.vals[i])
            {
                viol("model:pixel-mismatch", who + " pixel " + std::to_string(i % (size_t)std::max<std::ptrdiff_t>(1, m.w)) + "," +
                     std::to_string(i / (size_t)std::max<std::ptrdiff_t>(1, m.w)) + " differs from model");
                break;
            }
    }

    void check_all()
    {
        std::vector<Block const*> owned;
        long area = 0; int live = 0;
        for (int s = 0; s < NS; ++s)
            if (mod[s].alive) { ++live; area += (long)(mod[s].w * mod[s].h); check_image("slot", s, *img[s], mod[s], owned); }
        for (int s = 0; s < NP; ++s)
            if (pmod[s].alive) { ++live; area += (long)(pmod[s].w * pmod[s].h); check_image("pslot", s, *pimg[s], pmod[s], owned); }
        // per arena: every live block belongs to an image whose *current* allocator is that arena (this also sees an
        // empty image that holds an alignment-slack block of a foreign arena, which has no pixel address to look up)
        {
            int users[8] = {};
            for (int s = 0; s < NS; ++s) if (mod[s].alive) ++users[AO::arena_of(img[s]->allocator()) & 7];
            for (int s = 0; s < NP; ++s) if (pmod[s].alive) ++users[AO::arena_of(pimg[s]->allocator()) & 7];
            for (int a = 0; a < 3; ++a)
                if (W.live_blocks(a) > users[a])
                    viol("ledger:wrong-allocator", "arena " + std::to_string(a) + " holds " + std::to_string(W.live_blocks(a)) +
                         " live blocks but only " + std::to_string(users[a]) + " live images use it as their allocator");
        }
        int lb = W.live_blocks();
        if (lb > live)
            viol("ledger:leak", std::to_string(lb) + " live blocks but only " + std::to_string(live) + " live images");
        long objs = area * K::objects_per_pixel;
        if (K::is_tracked && (long)L.live.size() != objs)
            viol((long)L.live.size() > objs ? "lifetime:leak" : "lifetime:missing",
                 std::to_string(L.live.size()) + " live elements, images hold " + std::to_string(objs));
        W.check_all_canaries();
    }

    void check_row_alignment(Image const& im, size_t align, char const* who)
    {
        if (align == 0) return;
        ++out.align_checked;
        std::vector<Extent> ex;
        if (!storage_of(im, ex)) return;
        for (auto const& e : ex)
            if (e.lo % align != 0 || e.bit != 0)
            {
                viol("model:row-alignment", std::string(who) + ": a row start is not aligned to " + std::to_string(align));
                return;
            }
    }

    // ------------------------------------------------------------------ the interpreter
    A make_alloc(Json const& op) const { return AO::make((int)(op.num("arena") % 3)); }

    void exec(Json const& op, int idx)
    {
        std::string kind = op.str("op");
        site = kind;
        cur_idx = idx;
        W.cur_site = site.c_str(); L.cur_site = site.c_str(); W.cur_op = idx;
        W.place.right = op.num("left") == 0;
        W.place.slack = (unsigned)(op.num("slack") % 5) * 16u;
        W.place.res = (unsigned)(op.num("res") % 16);
        W.alloc_fault.reset(); L.ctor_fault.reset(); L.copy_fault.reset(); L.assign_fault.reset();
        Json const& f = op.at("fault");
        if (!f.is_null())
        {
            std::string fk = f.str("kind"); long k = (long)f.num("k");
            if (fk == "alloc") W.alloc_fault.arm(k);
            else if (fk == "ctor") L.ctor_fault.arm(k);
            else if (fk == "copy") L.copy_fault.arm(k);
            else if (fk == "assign") L.assign_fault.arm(k);
        }
        long a0 = W.n_alloc, c0 = L.n_ctor, p0 = L.n_copy, s0 = L.n_assign;
        int threw = 0;
        try { dispatch(kind, op, idx); }
        catch (std::bad_alloc const&) { threw = 1; }
        catch (ElemFault const&) { threw = 2; }
        catch (std::exception const& e) { threw = 3; viol("model:unexpected-exception", std::string("std::exception: ") + e.what()); }
        catch (...) { threw = 3; viol("model:unexpected-exception", "unknown exception"); }
        OpCount oc;
        oc.alloc = W.n_alloc - a0; oc.ctor = L.n_ctor - c0; oc.copy = L.n_copy - p0; oc.assign = L.n_assign - s0;
        oc.threw = threw != 0;
        bool fired = W.alloc_fault.fired || L.ctor_fault.fired || L.copy_fault.fired || L.assign_fault.fired;
        if (W.alloc_fault.fired) ++out.faults_fired_alloc;
        if (L.ctor_fault.fired || L.copy_fault.fired || L.assign_fault.fired) ++out.faults_fired_elem;
        W.alloc_fault.reset(); L.ctor_fault.reset(); L.copy_fault.reset(); L.assign_fault.reset();
        if (threw && threw != 3 && !fired) viol("model:unexpected-exception", "operation threw although no fault was injected");
        if (!threw && fired)
        {
            // a fault that fired inside a constructor / allocation must surface (nothing in image swallows exceptions)
            viol("model:fault-swallowed", "an injected failure did not propagate to the caller");
        }
        if (threw) { ++out.ops_threw; after_throw(kind, op); }
        out.counts.push_back(oc);
        ++out.ops_executed;
        site = kind + (threw ? "+fault" : "");
        W.cur_site = site.c_str(); L.cur_site = site.c_str();
        check_all();
        trace.u64((uint64_t)idx); trace.u64((uint64_t)oc.alloc); trace.u64((uint64_t)(W.n_dealloc)); trace.u64((uint64_t)threw);
        for (int s = 0; s < NS; ++s)
        {
            dig.u64(mod[s].alive ? (uint64_t)(mod[s].w * 1000 + mod[s].h) : 0xDEAD);
            for (auto v : mod[s].vals) dig.u64(v);
        }
    }

    // state to re-adopt after an operation threw (targets named in the op)
    int thr_t = -1, thr_s = -1, thr_pt = -1;
    void after_throw(std::string const&, Json const&)
    {
        if (thr_t >= 0 && img[thr_t]) adopt_unspecified(mod[thr_t], *img[thr_t]);
        if (thr_s >= 0 && img[thr_s] && thr_s != thr_t) adopt_unspecified(mod[thr_s], *img[thr_s]);
        if (thr_pt >= 0 && pimg[thr_pt]) adopt(pmod[thr_pt], *pimg[thr_pt]);
    }

    // dims are read back first (they decide whether there is anything to write), then the contents are normalised
    void adopt_unspecified(Model& m, Image& im)
    {
        normalise(m, im, 0xFA17u + (uint64_t)cur_idx);
    }

    int target_for_ctor(Json const& op)
    {
        int t = (int)(op.num("slot") % NS);
        if (mod[t].alive) kill(t);
        return t;
    }

    void set_all(Model& m, std::ptrdiff_t w, std::ptrdiff_t h, uint64_t d)
    {
        m.alive = true; m.w = w; m.h = h; m.vals.assign((size_t)(w * h), d);
    }

    void expect_equal_images(Image const& a, Image const& b, char const* what)
    {
        ++out.eq_checked;
        if (!(a == b)) viol("model:copy-not-equal", std::string(what) + ": copy != source by image operator==");
    }

    void dispatch(std::string const& k, Json const& op, int)
    {
        thr_t = thr_s = thr_pt = -1;
        std::ptrdiff_t w = (std::ptrdiff_t)op.num("w"), h = (std::ptrdiff_t)op.num("h");
        size_t align = (size_t)op.num("align");
        uint64_t val = (uint64_t)op.num("val");
        bool ptform = op.num("pt") != 0;
        typename Image::point_t dims(w, h);

        if (k == "ctor_default")
        {
            int t = target_for_ctor(op);
            img[t] = new Image(align, make_alloc(op));
            set_all(mod[t], 0, 0, 0);
        }
        else if (k == "ctor_dims")
        {
            int t = target_for_ctor(op);
            img[t] = ptform ? new Image(dims, align, make_alloc(op)) : new Image(w, h, align, make_alloc(op));
            if (w * h == 0)
            {
                if (img[t]->width() * img[t]->height() != 0) viol("model:dims", "zero-area construction produced pixels");
                adopt(mod[t], *img[t]);
            }
            else
            {
                mod[t].alive = true; mod[t].w = w; mod[t].h = h;
                if (img[t]->width() == w && img[t]->height() == h) normalise(mod[t], *img[t], 0xD1A5u + (uint64_t)cur_idx); // unspecified contents
                else mod[t].vals.assign((size_t)(w * h), 0);
            }
            check_row_alignment(*img[t], align, "ctor_dims");
        }
        else if (k == "ctor_fill")
        {
            int t = target_for_ctor(op);
            typename K::Fill f(val);
            img[t] = ptform ? new Image(dims, f.get(), align, make_alloc(op)) : new Image(w, h, f.get(), align, make_alloc(op));
            if (w * h == 0) adopt(mod[t], *img[t]);
            else set_all(mod[t], w, h, val_digest(val));
            check_row_alignment(*img[t], align, "ctor_fill");
        }
        else if (k == "copy_ctor")
        {
            int s = pick_live(mod, NS, op.num("src"));
            if (s < 0) return;
            int t = (int)(op.num("slot") % NS);
            if (t == s) t = (t + 1) % NS;
            if (mod[t].alive) kill(t);
            img[t] = new Image(*img[s]);
            mod[t] = mod[s];
            expect_equal_images(*img[t], *img[s], "copy_ctor");
        }
        else if (k == "conv_from_partner") // image(const image<P2,IP2,A2>&)
        {
            int s = pick_live(pmod, NP, op.num("src"));
            if (s < 0) return;
            int t = target_for_ctor(op);
            img[t] = new Image(*pimg[s]);
            mod[t] = pmod[s];
            ++out.eq_checked;
            if (!(*img[t] == *pimg[s])) viol("model:copy-not-equal", "converting copy != source");
        }
        else if (k == "conv_to_partner")
        {
            int s = pick_live(mod, NS, op.num("src"));
            if (s < 0) return;
            int t = (int)(op.num("slot") % NP);
            if (pmod[t].alive) pkill(t);
            pimg[t] = new PImage(*img[s]);
            pmod[t] = mod[s];
            ++out.eq_checked;
            if (!(*pimg[t] == *img[s])) viol("model:copy-not-equal", "converting copy != source");
        }
        else if (k == "ctor_view")
        {
            int s = pick_live(mod, NS, op.num("src"));
            if (s < 0) return;
            int t = (int)(op.num("slot") % NS);
            if (t == s) t = (t + 1) % NS;
            if (mod[t].alive) kill(t);
            ctor_from_view(t, s, op, align, std::integral_constant<bool, K::is_tracked>());
        }
        else if (k == "move_ctor")
        {
            int s = pick_live(mod, NS, op.num("src"));
            if (s < 0) return;
            int t = (int)(op.num("slot") % NS);
            if (t == s) t = (t + 1) % NS;
            if (mod[t].alive) kill(t);
            img[t] = new Image(std::move(*img[s]));
            mod[t] = mod[s];
            adopt_unspecified(mod[s], *img[s]); // valid but unspecified
        }
        else if (k == "copy_assign")
        {
            int s = pick_live(mod, NS, op.num("src"));
            int t = pick_live(mod, NS, op.num("dst"));
            if (s < 0 || t < 0) return;
            thr_t = t;
            *img[t] = *img[s];
            mod[t] = mod[s];
            expect_equal_images(*img[t], *img[s], "copy_assign");
        }
        else if (k == "assign_from_partner")
        {
            int s = pick_live(pmod, NP, op.num("src"));
            int t = pick_live(mod, NS, op.num("dst"));
            if (s < 0 || t < 0 || !has_partner) return;
            thr_t = t;
            *img[t] = *pimg[s];
            mod[t] = pmod[s];
        }
        else if (k == "assign_to_partner")
        {
            int s = pick_live(mod, NS, op.num("src"));
            int t = pick_live(pmod, NP, op.num("dst"));
            if (s < 0 || t < 0 || !has_partner) return;
            thr_pt = t;
            *pimg[t] = *img[s];
            pmod[t] = mod[s];
        }
        else if (k == "move_assign")
        {
            int s = pick_live(mod, NS, op.num("src"));
            int t = pick_live(mod, NS, op.num("dst"));
            if (s < 0 || t < 0) return;
            thr_t = t; thr_s = s;
            Model ms = mod[s];
            *img[t] = std::move(*img[s]);
            if (t != s) { mod[t] = ms; adopt_unspecified(mod[s], *img[s]); }
            else adopt_unspecified(mod[t], *img[t]);
        }
        else if (k == "recreate")
        {
            int t = pick_live(mod, NS, op.num("dst"));
            if (t < 0) return;
            thr_t = t;
            do_recreate(t, op, w, h, align, val, ptform);
        }
        else if (k == "swap")
        {
            int a = pick_live(mod, NS, op.num("src"));
            int b = pick_live(mod, NS, op.num("dst"));
            if (a < 0 || b < 0) return;
            if (Tr::stateful && !Tr::propagate && !(img[a]->allocator() == img[b]->allocator())) return; // precondition
            if (op.num("free")) { using std::swap; swap(*img[a], *img[b]); }
            else img[a]->swap(*img[b]);
            std::swap(mod[a], mod[b]);
        }
        else if (k == "destroy")
        {
            int t = pick_live(mod, NS, op.num("dst"));
            if (t >= 0) kill(t);
        }
        else if (k == "pdestroy")
        {
            int t = pick_live(pmod, NP, op.num("dst"));
            if (t >= 0) pkill(t);
        }
        else if (k == "write_pixel")
        {
            int t = pick_live(mod, NS, op.num("dst"));
            if (t < 0 || mod[t].w * mod[t].h == 0) return;
            std::ptrdiff_t x = op.num("x") % mod[t].w, y = op.num("y") % mod[t].h;
            value_t p = K::make(val);
            gil::view(*img[t])(x, y) = p;
            mod[t].vals[(size_t)(y * mod[t].w + x)] = digest_of(p);
        }
        else if (k == "fill")
        {
            int t = pick_live(mod, NS, op.num("dst"));
            if (t < 0) return;
            value_t p = K::make(val);
            gil::fill_pixels(gil::view(*img[t]), p);
            std::fill(mod[t].vals.begin(), mod[t].vals.end(), digest_of(p));
        }
        else if (k == "copy_pixels")
        {
            int s = pick_live(mod, NS, op.num("src"));
            int t = pick_live(mod, NS, op.num("dst"));
            if (s < 0 || t < 0 || s == t) return;
            if (mod[s].w != mod[t].w || mod[s].h != mod[t].h) return;
            gil::copy_pixels(gil::const_view(*img[s]), gil::view(*img[t]));
            mod[t].vals = mod[s].vals;
        }
        else if (k == "sweep")
        {
            int t = pick_live(mod, NS, op.num("dst"));
            if (t < 0) return;
            do_sweep(gil::view(*img[t]), op);
            adopt(mod[t], *img[t]);
        }
        else if (k == "ext_sweep")
        {
            do_ext_sweep(op, w, h);
        }
    }

    void ctor_from_view(int t, int s, Json const& op, size_t align, std::false_type)
    {
        ctor_from_view2(t, s, op, align, std::integral_constant<bool, K::planar>());
    }
    template <class SV> void ctor_from_any_view(int t, SV const& sv, Json const& op, size_t align)
    {
        Model m; m.alive = true; m.w = sv.width(); m.h = sv.height();
        for (std::ptrdiff_t y = 0; y < sv.height(); ++y)
            for (std::ptrdiff_t x = 0; x < sv.width(); ++x) m.vals.push_back(digest_of(sv(x, y)));
        img[t] = new Image(sv, align, make_alloc(op));
        if (m.w * m.h == 0) adopt(mod[t], *img[t]); else mod[t] = m;
        check_row_alignment(*img[t], align, "ctor_view");
    }
    void ctor_from_view2(int t, int s, Json const& op, size_t align, std::false_type)
    {
        ctor_from_any_view(t, apply_xforms(to_step(gil::view(*img[s])), op.at("xf")), op, align);
    }
    // planar images cannot be constructed from x-stepped planar views (uninitialized_copy_aux needs
    // planar_pixel_iterator): restrict to sub-image + vertical flip, which keep the x iterator
    void ctor_from_view2(int t, int s, Json const& op, size_t align, std::true_type)
    {
        auto v = gil::view(*img[s]);
        Json const& xf = op.at("xf");
        if (!xf.a.empty() && v.width() > 0 && v.height() > 0)
        {
            Json const& f = xf.a[0];
            std::ptrdiff_t x = f.num("a") % v.width(), y = f.num("b") % v.height();
            v = gil::subimage_view(v, (int)x, (int)y, (int)(1 + f.num("c") % (v.width() - x)), (int)(1 + f.num("d") % (v.height() - y)));
        }
        if (xf.a.size() > 1) ctor_from_any_view(t, gil::flipped_up_down_view(v), op, align);
        else ctor_from_any_view(t, v, op, align);
    }
    void ctor_from_view(int, int, Json const&, size_t, std::true_type) {} // image(view) requires pixels

    void do_recreate(int t, Json const& op, std::ptrdiff_t w, std::ptrdiff_t h, size_t align, uint64_t val, bool ptform)
    {
        Image& im = *img[t];
        typename Image::point_t dims(w, h);
        bool with_fill = op.num("fillv") != 0, with_alloc = op.num("walloc") != 0;
        // capacity known only if the image currently has pixels (block located by address)
        long cap = -1;
        {
            std::vector<Extent> ex;
            if (storage_of(im, ex)) { auto b = W.find_live((void const*)ex[0].lo); if (b) cap = (long)b->n; }
        }
        A al = op.num("samealloc") ? A(im.allocator()) : make_alloc(op);
        bool same_alloc = !with_alloc || (al == im.allocator());
        Model old = mod[t];
        long a0 = W.n_alloc;
        typename K::Fill f(val);
        if (!with_fill && !with_alloc) { if (ptform) im.recreate(dims, align); else im.recreate(w, h, align); }
        else if (with_fill && !with_alloc) { if (ptform) im.recreate(dims, f.get(), align); else im.recreate(w, h, f.get(), align); }
        else if (!with_fill && with_alloc) { if (ptform) im.recreate(dims, align, al); else im.recreate(w, h, align, al); }
        else { if (ptform) im.recreate(dims, f.get(), align, al); else im.recreate(w, h, f.get(), align, al); }
        long allocs = W.n_alloc - a0;
        // dims
        if (im.width() != w || im.height() != h)
        {
            viol("model:dims", "recreate(" + std::to_string(w) + "x" + std::to_string(h) + ") left dims " +
                 std::to_string(im.width()) + "x" + std::to_string(im.height()));
            adopt(mod[t], im);
            return;
        }
        check_row_alignment(im, align, "recreate");
        if (cap >= 0 && same_alloc)
        {
            ++out.reuse_checked;
            if ((size_t)cap >= required_bytes(w, h, align))
            {
                ++out.reuse_hits;
                if (allocs != 0)
                    viol("model:storage-not-reused", "recreate to " + std::to_string(w) + "x" + std::to_string(h) + " align " +
                         std::to_string(align) + " allocated although the existing block of " + std::to_string(cap) +
                         " bytes is large enough (" + std::to_string(required_bytes(w, h, align)) + " needed)");
            }
        }
        Model m; m.alive = true; m.w = w; m.h = h;
        if (!with_fill) { normalise(m, im, 0x5EC2u + (uint64_t)cur_idx); mod[t] = m; return; }
        m.vals = read_vals(im);
        if (with_fill)
        {
            uint64_t d = val_digest(val);
            bool all_fill = std::all_of(m.vals.begin(), m.vals.end(), [d](uint64_t v) { return v == d; });
            bool noop_ok = (old.w == w && old.h == h && m.vals == old.vals); // statement does not promise a refill on a no-op
            if (!all_fill && !noop_ok) viol("model:recreate-fill", "recreate with fill value: pixels are neither the fill value nor (no-op) the old contents");
        }
        mod[t] = m;
    }

    template <class SrcView> void do_sweep(SrcView const& base, Json const& op)
    {
        sweep_impl(base, op, std::integral_constant<bool, K::is_tracked>());
    }
    template <class SrcView> void sweep_impl(SrcView const& base, Json const& op, std::true_type)
    {
        Hash hh;
        Sweeper<K, SrcView> sw{&out.sweep, &hh};
        sw.run(base, (unsigned)op.num("fam", 15), (uint64_t)op.num("wseed"));
        dig.u64(hh.h);
    }
    template <class SrcView> void sweep_impl(SrcView const& base, Json const& op, std::false_type)
    {
        Hash hh;
        unsigned fam = (unsigned)op.num("fam", 15);
        uint64_t ws = (uint64_t)op.num("wseed");
        if (op.num("raw"))
        {
            Sweeper<K, SrcView> sw{&out.sweep, &hh};
            sw.run(base, fam, ws);
        }
        StepV sv = apply_xforms(to_step(base), op.at("xf"));
        Sweeper<K, StepV> sw{&out.sweep, &hh};
        sw.run(sv, fam, ws);
        if (fam & 16u)
        {
            ScratchImage sc(sv.dimensions());
            sweep_algorithms<K>(sv, gil::view(sc), (uint64_t)op.num("val"), &out.sweep, &hh);
        }
        if (fam & 32u) nth_channel_sweep(sv, op, fam, ws, &hh, std::integral_constant<bool, K::nth_ok>());
        dig.u64(hh.h);
    }
    void nth_channel_sweep(StepV const& sv, Json const& op, unsigned fam, uint64_t ws, Hash* hh, std::true_type)
    {
        using NV = typename gil::nth_channel_view_type<StepV>::type;
        NV nv = gil::nth_channel_view(sv, (int)(op.num("ch") % K::nchan));
        struct NK
        {
            using value_t = typename NV::value_type;
            static uint64_t digest(value_t const& p) { Hash h; gil::static_for_each(p, ChanHash{&h}); return h.h; }
        };
        Sweeper<NK, NV> sw{&out.sweep, hh};
        sw.run(nv, fam & 15u, ws);
    }
    void nth_channel_sweep(StepV const&, Json const&, unsigned, uint64_t, Hash*, std::false_type) {}

    // view over a caller-supplied buffer of exactly h x row_bytes
    void do_ext_sweep(Json const& op, std::ptrdiff_t w, std::ptrdiff_t h)
    {
        ext_impl(op, w, h, std::integral_constant<int, K::is_tracked ? 2 : (K::planar ? 1 : 0)>());
    }
    size_t min_row_bytes(std::ptrdiff_t w) const
    {
        using xit = typename View::x_iterator;
        size_t units = (size_t)w * (size_t)gil::memunit_step(xit());
        return (units + gil::byte_to_memunit<xit>::value - 1) / gil::byte_to_memunit<xit>::value;
    }
    void ext_impl(Json const& op, std::ptrdiff_t w, std::ptrdiff_t h, std::integral_constant<int, 0>)
    {
        using xit = typename View::x_iterator;
        size_t chal = K::bit_aligned ? 1 : alignof(typename View::value_type);
        if (chal > 8) chal = 8;
        size_t rb = min_row_bytes(w) + (size_t)(op.num("pad") % 4) * chal;
        rb = (rb + chal - 1) / chal * chal + (size_t)(op.num("padb") % 8); // padb: row pitch that is not a multiple of the channel size
        size_t n = rb * (size_t)h;
        if (n == 0) return;
        unsigned char* buf = (unsigned char*)W.allocate(7, n);
        memset(buf, (int)(op.num("val") & 0xFF), n);
        {
            View v = make_view(w, h, buf, rb, (xit*)nullptr);
            do_sweep(v, op);
        }
        W.deallocate(7, buf, n);
    }
    template <class P> static View make_view(std::ptrdiff_t w, std::ptrdiff_t h, unsigned char* buf, size_t rb, P**)
    {
        return gil::interleaved_view((std::size_t)w, (std::size_t)h, (typename View::value_type*)buf, (std::ptrdiff_t)rb);
    }
    template <class R> static View make_view(std::ptrdiff_t w, std::ptrdiff_t h, unsigned char* buf, size_t rb, gil::bit_aligned_pixel_iterator<R>*)
    {
        using xit = typename View::x_iterator;
        return View(typename View::point_t(w, h), typename View::locator(xit(buf, 0), (std::ptrdiff_t)(rb * 8)));
    }
    void ext_impl(Json const& op, std::ptrdiff_t w, std::ptrdiff_t h, std::integral_constant<int, 1>)
    {
        using ch_t = typename gil::channel_type<View>::type;
        constexpr size_t N = gil::num_channels<View>::value;
        size_t rb = (size_t)w * sizeof(ch_t) + (size_t)(op.num("pad") % 4) * sizeof(ch_t) + (size_t)(op.num("padb") % 8);
        size_t n = rb * (size_t)h;
        if (n == 0) return;
        unsigned char* pl[5] = {};
        for (size_t i = 0; i < N; ++i) { pl[i] = (unsigned char*)W.allocate(7, n); memset(pl[i], (int)((op.num("val") + (int)i) & 0xFF), n); }
        {
            View v = make_planar(w, h, pl, rb, std::integral_constant<size_t, N>());
            do_sweep(v, op);
        }
        for (size_t i = 0; i < N; ++i) W.deallocate(7, pl[i], n);
    }
    static View make_planar(std::ptrdiff_t w, std::ptrdiff_t h, unsigned char** pl, size_t rb, std::integral_constant<size_t, 3>)
    {
        using ch_t = typename gil::channel_type<View>::type;
        return gil::planar_rgb_view((std::size_t)w, (std::size_t)h, (ch_t*)pl[0], (ch_t*)pl[1], (ch_t*)pl[2], (std::ptrdiff_t)rb);
    }
    static View make_planar(std::ptrdiff_t w, std::ptrdiff_t h, unsigned char** pl, size_t rb, std::integral_constant<size_t, 4>)
    {
        using ch_t = typename gil::channel_type<View>::type;
        using xit = typename View::x_iterator;
        return View(typename View::point_t(w, h), typename View::locator(xit((ch_t*)pl[0], (ch_t*)pl[1], (ch_t*)pl[2], (ch_t*)pl[3]), (std::ptrdiff_t)rb));
    }
    void ext_impl(Json const&, std::ptrdiff_t, std::ptrdiff_t, std::integral_constant<int, 2>) {}

    // ------------------------------------------------------------------ whole run
    RunOut& run(Json const& plan)
    {
        Json const& ops = plan.at("ops");
        int idx = 0;
        for (auto const& op : ops.a)
        {
            exec(op, idx++);
            if (out.rep.any()) break; // first violation decides; state after it is not trusted
        }
        if (!out.rep.any())
        {
            // abstract state before teardown
            for (int s = 0; s < NS; ++s)
            {
                if (!mod[s].alive) { out.abstract += "-;"; continue; }
                long ar = (long)(mod[s].w * mod[s].h);
                out.abstract += (ar == 0 ? "e" : ar < 10 ? "s" : ar < 100 ? "m" : "l");
                out.abstract += std::to_string(AO::arena_of(img[s]->allocator())) + ";";
            }
            site = "teardown";
            W.cur_site = site.c_str(); L.cur_site = site.c_str(); W.cur_op = idx;
            for (int s = 0; s < NS; ++s) if (mod[s].alive) kill(s);
            for (int s = 0; s < NP; ++s) if (pmod[s].alive) pkill(s);
            if (W.live_blocks() != 0) viol("ledger:leak", std::to_string(W.live_blocks()) + " blocks still live after all images were destroyed");
            if (K::is_tracked && !L.live.empty()) viol("lifetime:leak", std::to_string(L.live.size()) + " elements still alive after all images were destroyed");
        }
        out.digest = dig.h; out.trace = trace.h;
        out.n_alloc = W.n_alloc; out.n_dealloc = W.n_dealloc;
        return out;
    }
};

// ---------------------------------------------------------------------- plan generation
struct GenCfg
{
    bool has_partner = false, tracked = false, planar = false, stateful = false;
    int nchan = 1;
    int chan_align = 1;
    bool any = false; // any_image kind: every op carries the alternative to construct
};

inline Json gen_plan(uint64_t seed, std::string const& profile, std::string const& kind, std::string const& alloc, GenCfg const& cfg)
{
    Rng r(seed);
    Json plan = Json::object();
    plan.set("engine", "memsim");
    plan.set("std", std_version());
    plan.set("profile", profile);
    plan.set("kind", kind);
    plan.set("alloc", alloc);
    plan.set("seed", (long long)(seed & 0x7fffffffffffffffull));
    bool c01 = profile == "c01";
    std::vector<int> dimset = c01 ? std::vector<int>{0, 1, 2, 3, 4, 5, 6, 7, 8, 9, 15, 16, 17, 31, 32, 33}
                                  : std::vector<int>{0, 1, 2, 3, 5, 8, 16, 17};
    if (cfg.tracked) dimset = {0, 1, 2, 3, 4, 5};
    // C01/C10 quantify over *all* row alignments: values that are not a multiple of the channel size are included (the
    // engines are built without -fsanitize=alignment; x86 tolerates the misaligned channel accesses gil then makes)
    std::vector<int> aligns = {0, 0, 1, 2, 4, 8, 16, 32, 64, 3, 12, 24, 5, 6, 7};
    int nops = (int)r.range(c01 ? 6 : 12, c01 ? 16 : 32);
    Json ops = Json::array();
    // remember a few "interesting" shapes so that same-byte-size / same-dims cases are frequent
    std::vector<std::pair<int, int>> recent;
    auto dims = [&](Json& o)
    {
        int w, h;
        if (!recent.empty() && r.chance(1, 3))
        {
            auto d = r.pick(recent);
            w = d.first; h = d.second;
            if (r.chance(1, 2)) std::swap(w, h);
        }
        else { w = r.pick(dimset); h = r.pick(dimset); }
        if (r.chance(1, 12)) { int s = w * h; if (s > 0 && s <= 40) { w = s; h = 1; } }
        recent.push_back({w, h});
        o.set("w", w); o.set("h", h);
    };
    auto common = [&](Json& o)
    {
        o.set("align", r.pick(aligns));
        o.set("arena", (int)r.below(3));
        if (r.chance(1, 4)) o.set("left", 1);
        if (r.chance(1, 3)) o.set("slack", (int)r.below(5));
        if (r.chance(1, 4)) o.set("res", (int)r.below(16)); // block start = 16-aligned + res (allocator<unsigned char> promises no more than 1)
        o.set("val", (int)r.below(1000000));
        if (r.chance(1, 2)) o.set("pt", 1);
    };
    // history bias: what the previous op left in which slot, so that chains on one image (empty -> tiny, shrink -> re-align,
    // same byte size with another shape) are frequent instead of a 1-in-4 coincidence per step
    int last_slot = -1; bool last_empty = false;
    auto note = [&](Json const& o)
    {
        std::string nm = o.str("op");
        if (nm == "recreate" || nm == "ctor_dims" || nm == "ctor_fill")
        {
            last_slot = (int)(nm == "recreate" ? o.num("dst") : o.num("slot"));
            last_empty = o.num("w") * o.num("h") == 0;
        }
    };
    auto sweep_args = [&](Json& o)
    {
        o.set("xf", gen_xforms(r, 4));
        o.set("fam", (int)(r.chance(1, 2) ? 63 : r.below(64)));
        o.set("wseed", (int)r.below(1000000));
        o.set("ch", (int)r.below(5));
        if (r.chance(1, 3)) o.set("raw", 1);
        o.set("val", (int)r.below(1000000));
    };
    auto chain = [&](Json& o)
    {
        if (last_slot < 0 || !r.chance(1, 2)) return;
        o.set("dst", last_slot);
        if (last_empty && r.chance(2, 3))
        {   // an image without pixels may still hold (or believe it holds) its alignment slack: follow with something tiny
            o.set("w", (int)r.range(1, 3)); o.set("h", (int)r.range(1, 3)); o.set("align", r.pick({0, 0, 1, 2, 4}));
        }
    };
    for (int i = 0; i < nops; ++i)
    {
        Json o = Json::object();
        unsigned pickop = (unsigned)r.below(100);
        bool forced = last_empty && r.chance(1, 3);
        if (forced) pickop = c01 ? 75 : 50; // recreate
        bool early = i < 3 && !forced;
        if (c01)
        {
            if (early || pickop < 18) { o.set("op", r.chance(1, 2) ? "ctor_dims" : "ctor_fill"); o.set("slot", (int)r.below(4)); dims(o); common(o); }
            else if (pickop < 50) { o.set("op", "sweep"); o.set("dst", (int)r.below(4)); sweep_args(o); }
            else if (pickop < 72) { o.set("op", "ext_sweep"); dims(o); common(o); o.set("pad", (int)r.below(4)); if (r.chance(1, 4)) o.set("padb", (int)r.below(8)); sweep_args(o); }
            else if (pickop < 80) { o.set("op", "recreate"); o.set("dst", (int)r.below(4)); dims(o); common(o); if (r.chance(1, 2)) o.set("fillv", 1); chain(o); }
            else if (pickop < 85) { o.set("op", "copy_ctor"); o.set("slot", (int)r.below(4)); o.set("src", (int)r.below(4)); }
            else if (pickop < 90) { o.set("op", "copy_assign"); o.set("dst", (int)r.below(4)); o.set("src", (int)r.below(4)); }
            else if (pickop < 94 && !cfg.tracked) { o.set("op", "ctor_view"); o.set("slot", (int)r.below(4)); o.set("src", (int)r.below(4)); o.set("xf", gen_xforms(r, 3)); common(o); }
            else if (pickop < 97) { o.set("op", "move_assign"); o.set("dst", (int)r.below(4)); o.set("src", (int)r.below(4)); }
            else { o.set("op", "destroy"); o.set("dst", (int)r.below(4)); }
        }
        else
        {
            if (early || pickop < 10)
            {
                unsigned c = (unsigned)r.below(10);
                o.set("op", c < 1 ? "ctor_default" : c < 6 ? "ctor_dims" : "ctor_fill");
                o.set("slot", (int)r.below(4)); dims(o); common(o);
            }
            else if (pickop < 17) { o.set("op", "copy_ctor"); o.set("slot", (int)r.below(4)); o.set("src", (int)r.below(4)); common(o); }
            else if (pickop < 23) { o.set("op", "move_ctor"); o.set("slot", (int)r.below(4)); o.set("src", (int)r.below(4)); }
            else if (pickop < 35) { o.set("op", "copy_assign"); o.set("dst", (int)r.below(4)); o.set("src", (int)r.below(4)); common(o); }
            else if (pickop < 45) { o.set("op", "move_assign"); o.set("dst", (int)r.below(4)); o.set("src", (int)r.below(4)); common(o); }
            else if (pickop < 67)
            {
                o.set("op", "recreate"); o.set("dst", (int)r.below(4)); dims(o); common(o);
                if (r.chance(1, 2)) o.set("fillv", 1);
                if (r.chance(1, 3)) { o.set("walloc", 1); if (r.chance(1, 2)) o.set("samealloc", 1); }
                chain(o);
            }
            else if (pickop < 73) { o.set("op", "swap"); o.set("dst", (int)r.below(4)); o.set("src", (int)r.below(4)); if (r.chance(1, 2)) o.set("free", 1); }
            else if (pickop < 78) { o.set("op", "destroy"); o.set("dst", (int)r.below(4)); }
            else if (pickop < 83) { o.set("op", "write_pixel"); o.set("dst", (int)r.below(4)); o.set("x", (int)r.below(40)); o.set("y", (int)r.below(40)); o.set("val", (int)r.below(1000000)); }
            else if (pickop < 86) { o.set("op", "fill"); o.set("dst", (int)r.below(4)); o.set("val", (int)r.below(1000000)); }
            else if (pickop < 89) { o.set("op", "copy_pixels"); o.set("dst", (int)r.below(4)); o.set("src", (int)r.below(4)); }
            else if (pickop < 92 && !cfg.tracked) { o.set("op", "ctor_view"); o.set("slot", (int)r.below(4)); o.set("src", (int)r.below(4)); o.set("xf", gen_xforms(r, 2)); common(o); }
            else if (pickop < 97 && cfg.has_partner)
            {
                unsigned c = (unsigned)r.below(5);
                o.set("op", c == 0 ? "conv_from_partner" : c == 1 ? "assign_from_partner" : c == 2 ? "assign_to_partner" : c == 3 ? "conv_to_partner" : "pdestroy");
                o.set("slot", (int)r.below(4)); o.set("dst", (int)r.below(4)); o.set("src", (int)r.below(4)); common(o);
                if (c == 3) o.set("op", "conv_to_partner");
            }
            else { o.set("op", "sweep"); o.set("dst", (int)r.below(4)); sweep_args(o); o.set("fam", 1); }
        }
        if (cfg.any) o.set("type", (int)r.below(3));
        note(o);
        ops.push(o);
    }
    plan.set("ops", ops);
    return plan;
}

} // namespace sim
