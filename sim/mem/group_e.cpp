#include "group.hpp"
SIM_GROUP(e, gray1, gray2, gray4)
