// C01 access sweep: touch every in-range pixel of a (transformed) view through every accessor
// family.  Observation only: the oracles are the guard arena / ASan / canaries.
#pragma once
#include "kinds.hpp"
#include "../core/json.hpp"

namespace sim {

struct SweepStats { long pixels = 0; long accessors = 0; long views = 0; };

template <class K, class W>
struct Sweeper
{
    using value_t = typename K::value_t;
    SweepStats* st;
    Hash* h;

    // set=0: reads only (const-like); set bits choose accessor families
    void run(W const& v, unsigned families, uint64_t wseed)
    {
        std::ptrdiff_t const w = v.width(), hh = v.height();
        ++st->views;
        if (w <= 0 || hh <= 0)
        {
            // empty view: begin()==end() must hold without touching memory
            if (v.begin() != v.end()) h->u64(0xBAD);
            return;
        }
        st->pixels += (long)(w * hh);
        Rng r(wseed);
        if (families & 1u) // coordinates: read + read-modify-write
        {
            ++st->accessors;
            for (std::ptrdiff_t y = 0; y < hh; ++y)
                for (std::ptrdiff_t x = 0; x < w; ++x)
                {
                    value_t p(v(x, y));
                    h->u64(K::digest(p));
                    v(x, y) = p;
                }
        }
        if (families & 2u) // row / column iterators
        {
            ++st->accessors;
            for (std::ptrdiff_t y = 0; y < hh; ++y)
            {
                auto it = v.row_begin(y);
                for (std::ptrdiff_t x = 0; x < w; ++x) { value_t p(it[x]); it[x] = p; }
                auto e = v.row_end(y);
                std::ptrdiff_t n = 0;
                for (auto i = v.row_begin(y); i != e; ++i) { value_t p(*i); (void)p; ++n; }
                h->u64((uint64_t)n);
            }
            for (std::ptrdiff_t x = 0; x < w; ++x)
            {
                auto it = v.col_begin(x);
                for (std::ptrdiff_t y = 0; y < hh; ++y) { value_t p(it[y]); it[y] = p; }
                auto e = v.col_end(x);
                for (auto i = v.col_begin(x); i != e; ++i) { value_t p(*i); *i = p; }
            }
        }
        if (families & 4u) // 1-D traversal
        {
            ++st->accessors;
            std::ptrdiff_t n = 0;
            for (auto i = v.begin(), e = v.end(); i != e; ++i) { value_t p(*i); *i = p; ++n; }
            h->u64((uint64_t)n);
            for (auto i = v.rbegin(), e = v.rend(); i != e; ++i) { value_t p(*i); (void)p; }
            auto b = v.begin();
            for (int t = 0; t < 8; ++t)
            {
                std::ptrdiff_t i = (std::ptrdiff_t)r.below((uint64_t)(w * hh));
                value_t p(b[i]); b[i] = p;
                value_t q(*v.at(i)); (void)q;
                value_t s(*v.at(i % w, i / w)); (void)s;
            }
            // step back from end
            auto e = v.end();
            for (int t = 0; t < 3 && t < w * hh; ++t) { --e; value_t p(*e); (void)p; }
            // negative and positive random-access moves, in particular by whole rows (landing on column 0 of another row)
            std::ptrdiff_t const size = w * hh;
            std::ptrdiff_t const back[] = {1, w, 2 * w, size, size - w, (std::ptrdiff_t)r.below((uint64_t)size) + 1, (hh / 2) * w};
            for (std::ptrdiff_t n : back)
            {
                if (n < 1 || n > size) continue;
                auto it = v.end() - n;                       // position size-n
                value_t p(*it); *it = p;
                auto jt = v.end(); jt -= n;
                if (jt != it) h->u64(0xBAD1);
                if (v.end() - it != n) h->u64(0xBAD2);
                std::ptrdiff_t m = (size - n);               // it[-m] is begin()
                value_t q(it[-m]); (void)q;
                if (m >= w) { value_t q2(it[-w]); (void)q2; auto kt = it; kt += -w; value_t q3(*kt); (void)q3; }
                auto ft = v.begin() + (size - n);
                if (ft != it) h->u64(0xBAD3);
                value_t q4(*ft); (void)q4;
            }
            for (std::ptrdiff_t row = 0; row < hh; ++row)
            {
                auto it = v.begin() + row * w;               // first pixel of every row through the 1-D iterator
                value_t p(*it); (void)p;
                auto lt = v.begin() + (row * w + w - 1);     // last pixel of every row
                value_t q(*lt); (void)q;
            }
        }
        if (families & 8u) // locator walk + cached locations
        {
            ++st->accessors;
            std::ptrdiff_t x = (std::ptrdiff_t)r.below((uint64_t)w), y = (std::ptrdiff_t)r.below((uint64_t)hh);
            auto loc = v.xy_at(x, y);
            for (int t = 0; t < 24; ++t)
            {
                std::ptrdiff_t nx = (std::ptrdiff_t)r.below((uint64_t)w), ny = (std::ptrdiff_t)r.below((uint64_t)hh);
                switch (r.below(5))
                {
                case 0: loc += typename W::point_t(nx - x, ny - y); break;
                case 1: loc.x() += (nx - x); loc.y() += (ny - y); break;
                case 2: loc = loc.xy_at(nx - x, ny - y); break;
                case 3:
                {
                    // relative access without moving
                    value_t p(loc(nx - x, ny - y)); loc(nx - x, ny - y) = p;
                    auto c = loc.cache_location(nx - x, ny - y);
                    value_t q(loc[c]); (void)q;
                    nx = x; ny = y;
                    break;
                }
                default:
                    while (x < nx) { ++loc.x(); ++x; }
                    while (x > nx) { --loc.x(); --x; }
                    while (y < ny) { ++loc.y(); ++y; }
                    while (y > ny) { --loc.y(); --y; }
                }
                x = nx; y = ny;
                value_t p(*loc); *loc = p;
                h->u64(K::digest(p));
            }
            // x_at / y_at axis iterators relative to the locator
            auto xi = loc.x_at(-x, 0);
            for (std::ptrdiff_t i = 0; i < w; ++i) { value_t p(xi[i]); (void)p; }
            auto yi = loc.y_at(0, -y);
            for (std::ptrdiff_t i = 0; i < hh; ++i) { value_t p(yi[i]); (void)p; }
        }
    }
};

// fill_pixels of an x-stepped planar view does not compile in gil (fill_aux assumes planar_pixel_iterator)
template <class W, class P> void fill_if(W const& v, P const& p, std::true_type) { gil::fill_pixels(v, p); }
template <class W, class P> void fill_if(W const&, P const&, std::false_type) {}

// pixel algorithms between two views of possibly different type
template <class K, class W, class S>
void sweep_algorithms(W const& v, S const& scratch, uint64_t val, SweepStats* st, Hash* h)
{
    using value_t = typename K::value_t;
    if (v.dimensions() != scratch.dimensions()) return;
    ++st->accessors;
    gil::copy_pixels(v, scratch);
    bool eq = gil::equal_pixels(v, scratch);
    h->u64(eq ? 1u : 0u);
    fill_if(v, K::make(val), std::integral_constant<bool, !K::planar>());
    gil::copy_pixels(scratch, v);
    long n = 0;
    gil::for_each_pixel(v, [&n](typename W::reference) { ++n; });
    h->u64((uint64_t)n);
    gil::transform_pixels(v, scratch, [](typename W::const_t::reference p) { return value_t(p); });
    gil::transform_pixels(scratch, v, [](typename S::const_t::reference p) { return value_t(p); });
}

// ---- run-time composition of view transformations on the closed step-view type V
template <class V>
V apply_xform(V v, Json const& xf)
{
    std::string k = xf.str("x");
    if (k == "fud") return gil::flipped_up_down_view(v);
    if (k == "flr") return gil::flipped_left_right_view(v);
    if (k == "tr") return gil::transposed_view(v);
    if (k == "r90") return gil::rotated90cw_view(v);
    if (k == "r270") return gil::rotated90ccw_view(v);
    if (k == "r180") return gil::rotated180_view(v);
    if (k == "sub")
    {
        std::ptrdiff_t W = v.width(), H = v.height();
        if (W <= 0 || H <= 0) return gil::subimage_view(v, 0, 0, (int)(W > 0 ? 1 + xf.num("c") % W : 0), (int)(H > 0 ? 1 + xf.num("d") % H : 0)); // a view without pixels stays one
        std::ptrdiff_t x = xf.num("a") % W, y = xf.num("b") % H;
        std::ptrdiff_t w = 1 + xf.num("c") % (W - x), hh = 1 + xf.num("d") % (H - y);
        if (xf.num("z")) { w = 0; } // zero-width sub-view is legal
        return gil::subimage_view(v, (int)x, (int)y, (int)w, (int)hh);
    }
    if (k == "ss")
    {
        // views without pixels are transformed too: the result must again be without pixels (the sweeps visit whatever the
        // resulting view claims to have)
        return gil::subsampled_view(v, (std::ptrdiff_t)(1 + xf.num("a") % 3), (std::ptrdiff_t)(1 + xf.num("b") % 3));
    }
    return v;
}

template <class V>
V apply_xforms(V v, Json const& list)
{
    for (auto const& xf : list.a) v = apply_xform(v, xf);
    return v;
}

inline Json gen_xforms(Rng& r, int maxdepth)
{
    Json l = Json::array();
    int d = (int)r.below((uint64_t)maxdepth + 1);
    for (int i = 0; i < d; ++i)
    {
        Json x = Json::object();
        switch (r.below(8))
        {
        case 0: x.set("x", "fud"); break;
        case 1: x.set("x", "flr"); break;
        case 2: x.set("x", "tr"); break;
        case 3: x.set("x", "r90"); break;
        case 4: x.set("x", "r270"); break;
        case 5: x.set("x", "r180"); break;
        case 6:
            x.set("x", "sub"); x.set("a", (int)r.below(40)); x.set("b", (int)r.below(40));
            x.set("c", (int)r.below(40)); x.set("d", (int)r.below(40));
            if (r.chance(1, 20)) x.set("z", 1);
            break;
        default: x.set("x", "ss"); x.set("a", (int)r.below(3)); x.set("b", (int)r.below(3));
        }
        l.push(x);
    }
    return l;
}

} // namespace sim
