// Non-trivial Regular element with a lifetime registry and injectable throwing
// construction / copy / assignment (DESIGN.md 3.1).
#pragma once
#include "../core/arena.hpp"
#include <cstdint>
#include <unordered_set>

namespace sim {

struct ElemFault : std::exception { char const* what() const noexcept override { return "sim::ElemFault"; } };

struct Lifetime
{
    std::unordered_set<void const*> live; // membership only; never iterated for output
    Report* report = nullptr;
    char const* cur_site = "init";
    FaultCounter ctor_fault, copy_fault, assign_fault;
    long n_ctor = 0, n_copy = 0, n_assign = 0, n_dtor = 0;
    bool tracking = true;
    bool quiet = false; // harness-side element traffic: not counted, never a fault point

    void born(void const* p, char const* how)
    {
        if (!tracking) return;
        if (!live.insert(p).second && report)
            report->add("lifetime:construct-over-live", cur_site, std::string("element constructed (") + how + ") over a live element");
    }
    void died(void const* p)
    {
        ++n_dtor;
        if (!tracking) return;
        if (!live.erase(p) && report)
            report->add("lifetime:double-destroy", cur_site, "destructor ran on an element that is not alive");
    }
    void used(void const* p, char const* how)
    {
        if (!tracking) return;
        if (!live.count(p) && report)
            report->add("lifetime:use-of-dead", cur_site, std::string(how) + " on an element that is not alive");
    }
};

inline Lifetime*& lifetime()
{
    static Lifetime* l = nullptr;
    return l;
}

struct QuietScope
{
    bool old;
    QuietScope() : old(lifetime()->quiet) { lifetime()->quiet = true; }
    ~QuietScope() { lifetime()->quiet = old; }
};

struct Tracked
{
    uint32_t id;

    Tracked() : id(0)
    {
        auto L = lifetime();
        if (!L->quiet) { ++L->n_ctor; if (L->ctor_fault.hit()) throw ElemFault(); }
        L->born(this, "default");
    }
    explicit Tracked(uint32_t v) : id(v)
    {
        lifetime()->born(this, "value"); // harness-side construction: never a fault point
    }
    Tracked(Tracked const& o) : id(o.id)
    {
        auto L = lifetime();
        L->used(&o, "copy-from");
        if (!L->quiet) { ++L->n_copy; if (L->copy_fault.hit()) throw ElemFault(); }
        L->born(this, "copy");
    }
    Tracked& operator=(Tracked const& o)
    {
        auto L = lifetime();
        L->used(&o, "assign-from");
        L->used(this, "assign-to");
        if (!L->quiet) { ++L->n_assign; if (L->assign_fault.hit()) throw ElemFault(); }
        id = o.id;
        return *this;
    }
    ~Tracked() { lifetime()->died(this); }
    friend bool operator==(Tracked const& a, Tracked const& b) { return a.id == b.id; }
    friend bool operator!=(Tracked const& a, Tracked const& b) { return a.id != b.id; }
};

} // namespace sim
