#include "group.hpp"
SIM_GROUP(a, rgb8i, rgb8p)
