#include "group.hpp"
SIM_GROUP(b, gray16, rgba32f, gray8)
