// Image "kinds" driven by memsim: pixel organisation + helpers to make values, digest pixels,
// locate storage, and build views over caller-supplied buffers.
#pragma once
#include <boost/gil.hpp>
#include <boost/gil/extension/toolbox/metafunctions/is_bit_aligned.hpp>
#include <boost/gil/extension/toolbox/metafunctions/is_homogeneous.hpp>
#include "../core/prng.hpp"
#include "alloc.hpp"
#include "tracked.hpp"
#include <cstdint>
#include <cstring>
#include <vector>

namespace sim {
namespace gil = boost::gil;

template <class T> struct is_float_channel : std::is_floating_point<T> {};
template <class B, class Mn, class Mx> struct is_float_channel<gil::scoped_channel_value<B, Mn, Mx>> : std::is_floating_point<B> {};

template <class P> struct is_plain_pixel : std::false_type {};
template <class T, class L> struct is_plain_pixel<gil::pixel<T, L>> : std::true_type {};

struct ChanSet
{
    uint64_t v; mutable int k = 0;
    template <class C> void operator()(C&& c) const
    {
        using CR = typename std::remove_reference<C>::type;
        using CT = gil::channel_traits<CR>;
        using VT = typename CT::value_type;
        uint64_t r = mix(v, (uint64_t)k++);
        set(c, r, is_float_channel<VT>());
    }
    template <class C> static void set(C&& c, uint64_t r, std::true_type)
    {
        using CT = gil::channel_traits<typename std::remove_reference<C>::type>;
        using VT = typename CT::value_type;
        double lo = (double)CT::min_value(), hi = (double)CT::max_value();
        c = VT((float)(lo + (hi - lo) * (double)(r % 1024) / 1023.0));
    }
    template <class C> static void set(C&& c, uint64_t r, std::false_type)
    {
        using CT = gil::channel_traits<typename std::remove_reference<C>::type>;
        using VT = typename CT::value_type;
        double lo = (double)CT::min_value(), hi = (double)CT::max_value();
        uint64_t span = (uint64_t)(hi - lo) + 1;
        c = VT((int64_t)lo + (int64_t)(r % span));
    }
};

struct ChanHash
{
    Hash* h;
    template <class C> void operator()(C const& c) const
    {
        double d = (double)c;
        uint64_t u; memcpy(&u, &d, 8);
        h->u64(u);
    }
};

// ---- storage extents of one row of an x-iterator (byte ranges, per plane)
struct Extent { uintptr_t lo, hi; int bit; };

template <class P> void it_extents(P* b, std::ptrdiff_t w, std::vector<Extent>& out)
{
    out.push_back({(uintptr_t)b, (uintptr_t)(b + w), 0});
}
struct PlaneExt
{
    std::ptrdiff_t w; std::vector<Extent>* out;
    template <class P> void operator()(P* p) const { out->push_back({(uintptr_t)p, (uintptr_t)(p + w), 0}); }
};
template <class CP, class CS> void it_extents(gil::planar_pixel_iterator<CP, CS> const& it, std::ptrdiff_t w, std::vector<Extent>& out)
{
    gil::static_for_each(it, PlaneExt{w, &out});
}
template <class R> void it_extents(gil::bit_aligned_pixel_iterator<R> const& it, std::ptrdiff_t w, std::vector<Extent>& out)
{
    auto const& br = it.bit_range();
    uintptr_t s = (uintptr_t)br.current_byte();
    long bits = (long)br.bit_offset() + (long)w * R::bit_size;
    out.push_back({s, s + (uintptr_t)((bits + 7) / 8), br.bit_offset()});
}

// ---- generic pixel kinds ------------------------------------------------------------------
template <class Pixel, bool Planar> struct PixelKindBase
{
    using pixel_t = Pixel;
    static constexpr bool planar = Planar;
    static constexpr bool is_tracked = false;
    static constexpr int objects_per_pixel = 1;
    static constexpr int nchan = gil::num_channels<Pixel>::value;
    static constexpr bool nth_ok = is_plain_pixel<Pixel>::value; // incl. single-channel pixels (nth_channel_view(gray, 0))
    static constexpr int chan_align = (int)alignof(Pixel);
    static constexpr bool bit_aligned = false;
    template <class A> using image_t = gil::image<Pixel, Planar, A>;
    using value_t = typename gil::image<Pixel, Planar>::value_type;

    static value_t make(uint64_t v)
    {
        value_t p;
        gil::static_for_each(p, ChanSet{v});
        return p;
    }
    struct Fill
    {
        value_t val;
        explicit Fill(uint64_t v) : val(make(v)) {}
        Pixel const& get() const { return val; }
    };
    template <class Ref> static uint64_t digest(Ref const& r)
    {
        Hash h;
        value_t p(r);
        gil::static_for_each(p, ChanHash{&h});
        return h.h;
    }
};

// bit-aligned kinds: Pixel is the reference proxy; fill value needs backing storage
template <class Img> struct BitAlignedKindBase
{
    using proto_image_t = Img;
    using pixel_t = typename Img::view_t::reference; // bit_aligned_pixel_reference<...>
    static constexpr bool planar = false;
    static constexpr bool is_tracked = false;
    static constexpr int objects_per_pixel = 1;
    static constexpr int nchan = gil::num_channels<pixel_t>::value;
    static constexpr bool nth_ok = false; // nth_channel_view needs a homogeneous pixel
    static constexpr int chan_align = 1;
    static constexpr bool bit_aligned = true;
    using value_t = typename Img::value_type;
    template <class A> using image_t = gil::image<pixel_t, false, A>;

    static value_t make(uint64_t v)
    {
        value_t p;
        gil::static_for_each(p, ChanSet{v});
        return p;
    }
    struct Fill
    {
        alignas(8) unsigned char buf[16];
        pixel_t ref;
        explicit Fill(uint64_t v) : buf{}, ref(buf, 0) { ref = make(v); }
        pixel_t const& get() const { return ref; }
    };
    template <class Ref> static uint64_t digest(Ref const& r)
    {
        Hash h;
        value_t p(r);
        gil::static_for_each(p, ChanHash{&h});
        return h.h;
    }
};

struct TrackedKind
{
    using pixel_t = Tracked;
    static constexpr bool planar = false;
    static constexpr bool is_tracked = true;
    static constexpr int objects_per_pixel = 1; // registry entries per pixel
    static constexpr int nchan = 1;
    static constexpr bool nth_ok = false;
    static constexpr int chan_align = (int)alignof(Tracked);
    static constexpr bool bit_aligned = false;
    template <class A> using image_t = gil::image<Tracked, false, A>;
    using value_t = Tracked;
    static char const* name() { return "tracked"; }
    static value_t make(uint64_t v) { return Tracked((uint32_t)(v | 1u)); }
    struct Fill
    {
        Tracked val;
        explicit Fill(uint64_t v) : val((uint32_t)(v | 1u)) {}
        Tracked const& get() const { return val; }
    };
    static uint64_t digest(Tracked const& r)
    {
        lifetime()->used(&r, "read");
        return r.id;
    }
};

#define SIM_PIXEL_KIND(NAME, PIXEL, PLANAR)                                   \
    struct NAME : PixelKindBase<PIXEL, PLANAR> { static char const* name() { return #NAME; } };
#define SIM_BITS_KIND(NAME, ...)                                              \
    struct NAME : BitAlignedKindBase<typename __VA_ARGS__::type> { static char const* name() { return #NAME; } };

SIM_PIXEL_KIND(rgb8i, gil::rgb8_pixel_t, false)
SIM_PIXEL_KIND(rgb8p, gil::rgb8_pixel_t, true)
SIM_PIXEL_KIND(gray8, gil::gray8_pixel_t, false)
SIM_PIXEL_KIND(gray16, gil::gray16_pixel_t, false)
SIM_PIXEL_KIND(rgb16p, gil::rgb16_pixel_t, true)
SIM_PIXEL_KIND(rgba32f, gil::rgba32f_pixel_t, false)
SIM_PIXEL_KIND(cmyk8p, gil::cmyk8_pixel_t, true)
SIM_PIXEL_KIND(cmyk8i, gil::cmyk8_pixel_t, false)
SIM_PIXEL_KIND(bgra8i, gil::bgra8_pixel_t, false)
using rgb565_pixel_t = gil::packed_pixel_type<uint16_t, boost::mp11::mp_list_c<unsigned, 5, 6, 5>, gil::rgb_layout_t>::type;
SIM_PIXEL_KIND(rgb565, rgb565_pixel_t, false)
SIM_BITS_KIND(gray1, gil::bit_aligned_image1_type<1, gil::gray_layout_t>)
SIM_BITS_KIND(gray2, gil::bit_aligned_image1_type<2, gil::gray_layout_t>)
SIM_BITS_KIND(gray4, gil::bit_aligned_image1_type<4, gil::gray_layout_t>)
SIM_BITS_KIND(bgr121, gil::bit_aligned_image3_type<1, 2, 1, gil::bgr_layout_t>)
SIM_BITS_KIND(rgb565b, gil::bit_aligned_image3_type<5, 6, 5, gil::rgb_layout_t>)
SIM_BITS_KIND(rgb777b, gil::bit_aligned_image3_type<7, 7, 7, gil::rgb_layout_t>)

// partner kind for converting copy / assignment (interleaved <-> planar of the same pixel)
template <class K> struct Partner { using type = void; };
template <> struct Partner<rgb8i> { using type = rgb8p; };
template <> struct Partner<rgb8p> { using type = rgb8i; };
template <> struct Partner<cmyk8p> { using type = cmyk8i; };
template <> struct Partner<cmyk8i> { using type = cmyk8p; };

} // namespace sim
