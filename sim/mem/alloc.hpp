// Simulated allocators for boost::gil::image<Pixel,Planar,Alloc> (DESIGN.md 3.1).
#pragma once
#include "../core/arena.hpp"
#include <cstddef>
#include <memory>
#include <type_traits>
#if __cplusplus >= 201703L
#include <memory_resource>
#endif

namespace sim {

// Traits kinds
struct AlwaysEqual { static constexpr bool stateful = false; static constexpr bool propagate = true; static constexpr char const* name = "always-equal"; };
struct Propagate   { static constexpr bool stateful = true;  static constexpr bool propagate = true; static constexpr char const* name = "stateful-propagate"; };
struct NoPropagate { static constexpr bool stateful = true;  static constexpr bool propagate = false; static constexpr char const* name = "stateful-nopropagate"; };

template <class Tr, bool Stateful = Tr::stateful> struct AllocState
{
    int arena = 0;
    AllocState() = default;
    explicit AllocState(int a) : arena(a) {}
    int arena_id() const { return arena; }
};
template <class Tr> struct AllocState<Tr, false>
{
    AllocState() = default;
    explicit AllocState(int) {}
    int arena_id() const { return 0; }
};

template <class T, class Tr>
struct Alloc : AllocState<Tr>
{
    using value_type = T;
    using propagate_on_container_copy_assignment = std::integral_constant<bool, Tr::propagate>;
    using propagate_on_container_move_assignment = std::integral_constant<bool, Tr::propagate>;
    using propagate_on_container_swap = std::integral_constant<bool, Tr::propagate>;
    using is_always_equal = std::integral_constant<bool, !Tr::stateful>;
    template <class U> struct rebind { using other = Alloc<U, Tr>; };

    Alloc() = default;
    explicit Alloc(int arena) : AllocState<Tr>(arena) {}
    template <class U> Alloc(Alloc<U, Tr> const& o) : AllocState<Tr>(o.arena_id()) {}

    T* allocate(std::size_t n)
    {
        return static_cast<T*>(world()->allocate(this->arena_id(), n * sizeof(T)));
    }
    void deallocate(T* p, std::size_t n) noexcept
    {
        world()->deallocate(this->arena_id(), p, n * sizeof(T));
    }
    template <class U> bool operator==(Alloc<U, Tr> const& o) const { return this->arena_id() == o.arena_id(); }
    template <class U> bool operator!=(Alloc<U, Tr> const& o) const { return this->arena_id() != o.arena_id(); }
};

// how the engine makes an allocator for an arena and asks an allocator for its arena
template <class Tr> struct AllocOps
{
    using type = Alloc<unsigned char, Tr>;
    static type make(int arena) { return type(arena); }
    static int arena_of(type const& a) { return a.arena_id(); }
    static void begin_run() {}
};

#if __cplusplus >= 201703L
// memory_resource over the same world: arena id = resource id (1000+id so it is distinguishable in reports)
struct Resource : std::pmr::memory_resource
{
    int id;
    explicit Resource(int i) : id(i) {}
    void* do_allocate(std::size_t bytes, std::size_t) override { return world()->allocate(id, bytes); }
    void do_deallocate(void* p, std::size_t bytes, std::size_t) override { world()->deallocate(id, p, bytes); }
    bool do_is_equal(std::pmr::memory_resource const& o) const noexcept override { return this == &o; }
};

// std::pmr::polymorphic_allocator<unsigned char> (what boost::gil::pmr::*_image_t use): stateful, never propagates,
// not assignable; a default-constructed one uses the default resource, which the engine points at arena 0
struct Pmr { static constexpr bool stateful = true; static constexpr bool propagate = false; static constexpr char const* name = "pmr"; };
inline Resource& pmr_resource(int arena)
{
    static Resource r[3] = {Resource(0), Resource(1), Resource(2)};
    return r[arena % 3];
}
template <> struct AllocOps<Pmr>
{
    using type = std::pmr::polymorphic_allocator<unsigned char>;
    static type make(int arena) { return type(&pmr_resource(arena)); }
    static int arena_of(type const& a) { return static_cast<Resource*>(a.resource())->id; }
    static void begin_run() { std::pmr::set_default_resource(&pmr_resource(0)); }
};
#endif

} // namespace sim
