#include "group.hpp"
SIM_GROUP(d, rgb565, bgra8i, TrackedKind)
