// Guard arena with allocation ledger (DESIGN.md 2.5b, 3.1).
// Every block is its own mmap: [guard page][slack/canary][block][slack/canary][guard page].
// Freed blocks stay mapped PROT_NONE (quarantine) until end of run => use-after-free faults.
#pragma once
#include <sys/mman.h>
#include <unistd.h>
#include <cstdint>
#include <cstring>
#include <new>
#include <string>
#include <vector>

#if defined(__SANITIZE_ADDRESS__)
#include <sanitizer/asan_interface.h>
#define SIM_POISON(p, n) __asan_poison_memory_region((p), (n))
#define SIM_UNPOISON(p, n) __asan_unpoison_memory_region((p), (n))
#else
#define SIM_POISON(p, n) ((void)0)
#define SIM_UNPOISON(p, n) ((void)0)
#endif

namespace sim {

struct Violation
{
    std::string cls;    // e.g. ledger:double-free
    std::string site;   // operation kind
    std::string detail; // free text (no addresses)
};

// Collected by the engine; the first one decides the run's verdict.
struct Report
{
    std::vector<Violation> v;
    void add(std::string cls, std::string site, std::string detail)
    {
        if (v.size() < 16) v.push_back({std::move(cls), std::move(site), std::move(detail)});
    }
    bool any() const { return !v.empty(); }
};

struct Block
{
    unsigned char* map = nullptr; size_t map_len = 0;
    unsigned char* ptr = nullptr; size_t n = 0;
    unsigned char* lo_pad = nullptr; size_t lo_pad_n = 0;
    unsigned char* hi_pad = nullptr; size_t hi_pad_n = 0;
    int arena = -1;
    int id = -1;
    int op = -1;
    bool live = false;
    bool in_region = false;
};

// Placement policy for the next allocations (set from the plan before each op).
struct Placement
{
    bool right = true;   // flush against the right guard (over-run detection) or the left one
    unsigned slack = 0;  // bytes between block and that guard; multiple of 16 keeps malloc-like alignment
    unsigned res = 0;    // block start = 16-aligned address + res (0 = malloc-like; an allocator<unsigned char> may return any)
};

class World; // owns all arenas: one ledger, ids per arena

// Block addresses must be a function of the plan alone (a row-alignment or residue effect that depends on where the
// kernel happened to place an mmap would not replay in a fresh process): all blocks of a run are carved, in order, from
// one fixed region that is reserved once per process and handed back zeroed at the end of every run.
struct Region
{
    unsigned char* base = nullptr;
    size_t size = (size_t)1 << 36; // 64 GiB of address space, PROT_NONE, no reservation
    size_t cur = 0;
    void const* owner = nullptr;
    bool tried = false;
    static Region& get() { static Region r; return r; }
    bool init()
    {
        if (base) return true;
        if (tried) return false;
        tried = true;
        void* want = (void*)0x200000000000ull; // inside ASan's HighMem, away from its allocator (0x6000'0000'0000)
        void* p = mmap(want, size, PROT_NONE, MAP_PRIVATE | MAP_ANONYMOUS | MAP_NORESERVE | MAP_FIXED_NOREPLACE, -1, 0);
        if (p == MAP_FAILED) return false;
        if (p != want) { munmap(p, size); return false; }
        base = (unsigned char*)p;
        return true;
    }
};

struct FaultCounter
{
    long fail_at = -1; // k-th event (0-based) inside the current op fails; -1 = none
    long count = 0;
    bool fired = false;
    void arm(long k) { fail_at = k; count = 0; fired = false; }
    void reset() { fail_at = -1; count = 0; fired = false; }
    bool hit()
    {
        long c = count++;
        if (fail_at >= 0 && c == fail_at) { fired = true; return true; }
        return false;
    }
};

class World
{
public:
    static constexpr unsigned char CANARY = 0xC5;
    std::vector<Block> blocks;
    Report* report = nullptr;
    char const* cur_site = "init";
    int cur_op = -1;
    Placement place;
    FaultCounter alloc_fault;
    size_t page = (size_t)sysconf(_SC_PAGESIZE);
    // counters
    long n_alloc = 0, n_dealloc = 0, n_alloc_failed = 0;
    size_t cap_bytes = (size_t)8 << 20;

    ~World() { release_all(); }

    int live_blocks(int arena = -1) const
    {
        int c = 0;
        for (auto const& b : blocks) if (b.live && (arena < 0 || b.arena == arena)) ++c;
        return c;
    }

    Block const* find_live(void const* p) const
    {
        auto u = (unsigned char const*)p;
        for (auto const& b : blocks)
            if (b.live && u >= b.ptr && u < b.ptr + (b.n ? b.n : 1)) return &b;
        return nullptr;
    }
    Block const* find_any(void const* p) const
    {
        auto u = (unsigned char const*)p;
        for (auto const& b : blocks)
            if (b.map && u >= b.map && u < b.map + b.map_len) return &b;
        return nullptr;
    }

    void* allocate(int arena, size_t n)
    {
        ++n_alloc;
        if (alloc_fault.hit()) { ++n_alloc_failed; throw std::bad_alloc(); }
        if (n > cap_bytes) { ++n_alloc_failed; throw std::bad_alloc(); }
        Block b;
        size_t slack = place.slack;
        size_t body = ((n + slack + 32 + page - 1) / page) * page;
        if (body == 0) body = page;
        b.map_len = body + 2 * page;
        Region& R = Region::get();
        if (R.init() && (R.owner == nullptr || R.owner == this) && R.cur + b.map_len <= R.size)
        {
            R.owner = this;
            b.map = R.base + R.cur; R.cur += b.map_len; b.in_region = true;
        }
        else
        {
            b.map = (unsigned char*)mmap(nullptr, b.map_len, PROT_NONE, MAP_PRIVATE | MAP_ANONYMOUS, -1, 0);
            if (b.map == (unsigned char*)MAP_FAILED) throw std::bad_alloc();
        }
        unsigned char* lo = b.map + page;
        unsigned char* hi = lo + body;
        mprotect(lo, body, PROT_READ | PROT_WRITE);
        SIM_UNPOISON(lo, body);
        // like malloc, blocks start 16-aligned (gil stores 16/32-bit channels in allocator<unsigned char> memory)
        unsigned res = place.res % 16;
        if (place.right) { b.ptr = hi - slack - n; b.ptr -= ((uintptr_t)b.ptr + 16 - res) % 16; if (b.ptr < lo) b.ptr = lo + res; }
        else b.ptr = lo + (slack / 16) * 16 + res;
        b.n = n;
        b.lo_pad = lo; b.lo_pad_n = (size_t)(b.ptr - lo);
        b.hi_pad = b.ptr + n; b.hi_pad_n = (size_t)(hi - (b.ptr + n));
        memset(b.lo_pad, CANARY, b.lo_pad_n);
        memset(b.hi_pad, CANARY, b.hi_pad_n);
        SIM_POISON(b.lo_pad, b.lo_pad_n);   // ASan rounds inwards where granules are shared
        SIM_POISON(b.hi_pad, b.hi_pad_n);
        b.arena = arena; b.id = (int)blocks.size(); b.op = cur_op; b.live = true;
        blocks.push_back(b);
        return b.ptr;
    }

    void deallocate(int arena, void* p, size_t n)
    {
        ++n_dealloc;
        for (auto& b : blocks)
        {
            if (b.ptr != p || !b.map) continue;
            if (!b.live) continue; // same address cannot be reused while quarantined; keep looking
            if (b.arena != arena)
                rep("ledger:wrong-allocator", "block " + tag(b) + " allocated by arena " + std::to_string(b.arena) +
                    " deallocated through arena " + std::to_string(arena));
            if (b.n != n)
                rep("ledger:size-mismatch", "block " + tag(b) + " allocated with n=" + std::to_string(b.n) +
                    " deallocated with n=" + std::to_string(n));
            check_canary(b);
            b.live = false;
            SIM_UNPOISON(b.map + page, b.map_len - 2 * page);
            mprotect(b.map, b.map_len, PROT_NONE);
            return;
        }
        // not a live block start
        for (auto const& b : blocks)
            if (b.ptr == p && b.map && !b.live)
            {
                rep("ledger:double-free", "block " + tag(b) + " deallocated twice (n=" + std::to_string(n) + ")");
                return;
            }
        rep("ledger:bad-free", "deallocate of a pointer that is not the start of any block (n=" + std::to_string(n) + ")");
    }

    void check_canary(Block const& b)
    {
        if (!b.live) return;
        SIM_UNPOISON(b.lo_pad, b.lo_pad_n);
        SIM_UNPOISON(b.hi_pad, b.hi_pad_n);
        for (size_t i = 0; i < b.lo_pad_n; ++i)
            if (b.lo_pad[i] != CANARY)
            {
                rep("canary:underrun:WRITE", "block " + tag(b) + " byte -" + std::to_string(b.lo_pad_n - i) + " before start overwritten");
                memset(b.lo_pad, CANARY, b.lo_pad_n);
                break;
            }
        for (size_t i = 0; i < b.hi_pad_n; ++i)
            if (b.hi_pad[i] != CANARY)
            {
                rep("canary:overrun:WRITE", "block " + tag(b) + " byte +" + std::to_string(i) + " after end overwritten");
                memset(b.hi_pad, CANARY, b.hi_pad_n);
                break;
            }
        SIM_POISON(b.lo_pad, b.lo_pad_n);
        SIM_POISON(b.hi_pad, b.hi_pad_n);
    }
    void check_all_canaries() { for (auto const& b : blocks) check_canary(b); }

    void release_all()
    {
        for (auto& b : blocks)
            if (b.map)
            {
                if (b.live) { SIM_UNPOISON(b.map + page, b.map_len - 2 * page); }
                if (!b.in_region) munmap(b.map, b.map_len);
                b.map = nullptr; b.live = false;
            }
        blocks.clear();
        Region& R = Region::get();
        if (R.owner == this)
        {
            if (R.cur) { mprotect(R.base, R.cur, PROT_NONE); madvise(R.base, R.cur, MADV_DONTNEED); }
            R.cur = 0; R.owner = nullptr;
        }
    }

    static std::string tag(Block const& b)
    {
        return "#" + std::to_string(b.id) + "(op" + std::to_string(b.op) + ",arena" + std::to_string(b.arena) + ",n=" + std::to_string(b.n) + ")";
    }
    void rep(char const* cls, std::string detail)
    {
        if (report) report->add(cls, cur_site, std::move(detail));
    }
};

inline World*& world()
{
    static World* w = nullptr;
    return w;
}

} // namespace sim
