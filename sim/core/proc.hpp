// Process-level plumbing shared by the engines: sanitizer defaults, ASLR off, guard-page SEGV classifier.
#pragma once
#include "arena.hpp"
#include <sys/personality.h>
#include <signal.h>
#include <unistd.h>
#include <cstdio>
#include <cstdlib>
#include <cstring>

#if defined(__SANITIZE_ADDRESS__)
#include <sanitizer/common_interface_defs.h>
#endif

namespace sim {

inline void disable_aslr_and_reexec(char** argv)
{
    if (getenv("SIM_NO_REEXEC")) return;
    int p = personality(0xffffffff);
    if (p != -1 && !(p & ADDR_NO_RANDOMIZE))
    {
        if (personality(p | ADDR_NO_RANDOMIZE) != -1)
        {
            setenv("SIM_NO_REEXEC", "1", 1);
            execv("/proc/self/exe", argv);
        }
    }
}

inline void segv_handler(int sig, siginfo_t* si, void*)
{
    char buf[512];
    unsigned char const* a = (unsigned char const*)si->si_addr;
    char const* cls = "signal:segv";
    char detail[256] = "";
    World* w = world();
    if (w)
    {
        for (auto const& b : w->blocks)
        {
            if (!b.map || a < b.map || a >= b.map + b.map_len) continue;
            if (!b.live) { cls = "guard:use-after-free"; snprintf(detail, sizeof detail, "access inside freed block #%d(op%d,n=%zu) offset %ld", b.id, b.op, b.n, (long)(a - b.ptr)); }
            else if (a < b.ptr) { cls = "guard:underrun"; snprintf(detail, sizeof detail, "access %ld bytes before block #%d(op%d,n=%zu)", (long)(b.ptr - a), b.id, b.op, b.n); }
            else { cls = "guard:overrun"; snprintf(detail, sizeof detail, "access at offset %ld of block #%d(op%d,n=%zu)", (long)(a - b.ptr), b.id, b.op, b.n); }
            break;
        }
    }
    int n = snprintf(buf, sizeof buf, "\nSIMGUARD sig=%d class=%s site=%s detail=%s\n", sig, cls, (w && w->cur_site) ? w->cur_site : "?", detail);
    if (n > 0) { ssize_t r = write(2, buf, (size_t)n); (void)r; }
#if defined(__SANITIZE_ADDRESS__)
    __sanitizer_print_stack_trace();
#endif
    _exit(79);
}

inline void install_segv_handler()
{
    static char altstack[1 << 16];
    stack_t ss; ss.ss_sp = altstack; ss.ss_size = sizeof altstack; ss.ss_flags = 0;
    sigaltstack(&ss, nullptr);
    struct sigaction sa; memset(&sa, 0, sizeof sa);
    sa.sa_sigaction = segv_handler; sa.sa_flags = SA_SIGINFO | SA_ONSTACK;
    sigaction(SIGSEGV, &sa, nullptr);
    sigaction(SIGBUS, &sa, nullptr);
}

} // namespace sim

#define SIM_SANITIZER_DEFAULTS(EXTRA)                                                                                      \
    extern "C" __attribute__((used, visibility("default"))) char const* __asan_default_options()                          \
    { return "exitcode=77:detect_leaks=0:allocator_may_return_null=1:handle_segv=0:handle_sigbus=0:abort_on_error=0:"      \
             "detect_stack_use_after_return=0:print_legend=0:print_full_thread_history=0" EXTRA; }                         \
    extern "C" __attribute__((used, visibility("default"))) char const* __ubsan_default_options()                         \
    { return "exitcode=78:print_stacktrace=1:halt_on_error=1"; }
