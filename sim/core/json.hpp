// Minimal JSON DOM (ordered objects, int64 numbers + doubles) for plan / replay files.
#pragma once
#include <cstdint>
#include <cstdio>
#include <cstdlib>
#include <cstring>
#include <stdexcept>
#include <string>
#include <utility>
#include <vector>

namespace sim {

struct Json
{
    enum Type { Null, Bool, Int, Dbl, Str, Arr, Obj } type = Null;
    bool b = false;
    int64_t i = 0;
    double d = 0;
    std::string s;
    std::vector<Json> a;
    std::vector<std::pair<std::string, Json>> o;

    Json() {}
    Json(bool v) : type(Bool), b(v) {}
    Json(int v) : type(Int), i(v) {}
    Json(unsigned v) : type(Int), i(v) {}
    Json(long v) : type(Int), i(v) {}
    Json(long long v) : type(Int), i(v) {}
    Json(unsigned long v) : type(Int), i((int64_t)v) {}
    Json(unsigned long long v) : type(Int), i((int64_t)v) {}
    Json(double v) : type(Dbl), d(v) {}
    Json(char const* v) : type(Str), s(v) {}
    Json(std::string v) : type(Str), s(std::move(v)) {}
    static Json array() { Json j; j.type = Arr; return j; }
    static Json object() { Json j; j.type = Obj; return j; }

    bool is_null() const { return type == Null; }
    bool has(char const* k) const { return find(k) != nullptr; }
    Json const* find(char const* k) const
    {
        for (auto const& kv : o) if (kv.first == k) return &kv.second;
        return nullptr;
    }
    Json& set(std::string const& k, Json v)
    {
        type = Obj;
        for (auto& kv : o) if (kv.first == k) { kv.second = std::move(v); return kv.second; }
        o.emplace_back(k, std::move(v));
        return o.back().second;
    }
    Json& push(Json v) { type = Arr; a.push_back(std::move(v)); return a.back(); }
    int64_t num(char const* k, int64_t def = 0) const
    {
        auto p = find(k);
        if (!p) return def;
        if (p->type == Int) return p->i;
        if (p->type == Dbl) return (int64_t)p->d;
        if (p->type == Bool) return p->b;
        return def;
    }
    std::string str(char const* k, char const* def = "") const
    {
        auto p = find(k);
        return (p && p->type == Str) ? p->s : std::string(def);
    }
    Json const& at(char const* k) const
    {
        static Json const nul;
        auto p = find(k);
        return p ? *p : nul;
    }

    void dump(std::string& out) const
    {
        char buf[64];
        switch (type)
        {
        case Null: out += "null"; break;
        case Bool: out += b ? "true" : "false"; break;
        case Int: snprintf(buf, sizeof buf, "%lld", (long long)i); out += buf; break;
        case Dbl: snprintf(buf, sizeof buf, "%.17g", d); out += buf; break;
        case Str: dump_str(s, out); break;
        case Arr:
            out += '[';
            for (size_t k = 0; k < a.size(); ++k) { if (k) out += ','; a[k].dump(out); }
            out += ']';
            break;
        case Obj:
            out += '{';
            for (size_t k = 0; k < o.size(); ++k)
            {
                if (k) out += ',';
                dump_str(o[k].first, out);
                out += ':';
                o[k].second.dump(out);
            }
            out += '}';
            break;
        }
    }
    std::string dump() const { std::string r; dump(r); return r; }
    static void dump_str(std::string const& s, std::string& out)
    {
        out += '"';
        for (unsigned char c : s)
        {
            if (c == '"' || c == '\\') { out += '\\'; out += (char)c; }
            else if (c < 0x20) { char b[8]; snprintf(b, sizeof b, "\\u%04x", c); out += b; }
            else out += (char)c;
        }
        out += '"';
    }

    // ---- parser
    struct P
    {
        char const* p; char const* e;
        [[noreturn]] void fail(char const* m) { throw std::runtime_error(std::string("json: ") + m); }
        void ws() { while (p < e && (*p == ' ' || *p == '\n' || *p == '\t' || *p == '\r')) ++p; }
        Json val()
        {
            ws();
            if (p >= e) fail("eof");
            char c = *p;
            if (c == '{')
            {
                ++p; Json j = object(); ws();
                if (p < e && *p == '}') { ++p; return j; }
                for (;;)
                {
                    ws(); if (p >= e || *p != '"') fail("key");
                    std::string k = strv(); ws();
                    if (p >= e || *p != ':') fail("colon");
                    ++p; j.o.emplace_back(k, val()); ws();
                    if (p < e && *p == ',') { ++p; continue; }
                    if (p < e && *p == '}') { ++p; return j; }
                    fail("obj");
                }
            }
            if (c == '[')
            {
                ++p; Json j = array(); ws();
                if (p < e && *p == ']') { ++p; return j; }
                for (;;)
                {
                    j.a.push_back(val()); ws();
                    if (p < e && *p == ',') { ++p; continue; }
                    if (p < e && *p == ']') { ++p; return j; }
                    fail("arr");
                }
            }
            if (c == '"') return Json(strv());
            if (!strncmp(p, "true", 4)) { p += 4; return Json(true); }
            if (!strncmp(p, "false", 5)) { p += 5; return Json(false); }
            if (!strncmp(p, "null", 4)) { p += 4; return Json(); }
            char* end = nullptr;
            bool isd = false;
            for (char const* q = p; q < e && (isdigit((unsigned char)*q) || *q == '-' || *q == '+' || *q == '.' || *q == 'e' || *q == 'E'); ++q)
                if (*q == '.' || *q == 'e' || *q == 'E') isd = true;
            if (isd) { double d = strtod(p, &end); if (end == p) fail("num"); p = end; return Json(d); }
            long long v = strtoll(p, &end, 10);
            if (end == p) fail("num");
            p = end;
            return Json(v);
        }
        std::string strv()
        {
            ++p; std::string r;
            while (p < e && *p != '"')
            {
                if (*p == '\\')
                {
                    ++p; if (p >= e) fail("esc");
                    switch (*p)
                    {
                    case 'n': r += '\n'; break; case 't': r += '\t'; break; case 'r': r += '\r'; break;
                    case 'b': r += '\b'; break; case 'f': r += '\f'; break;
                    case 'u': { unsigned v = 0; sscanf(p + 1, "%4x", &v); r += (char)v; p += 4; break; }
                    default: r += *p;
                    }
                    ++p;
                }
                else r += *p++;
            }
            if (p >= e) fail("str");
            ++p;
            return r;
        }
    };
    static Json parse(std::string const& text)
    {
        P ps{text.data(), text.data() + text.size()};
        return ps.val();
    }
    static Json parse_file(char const* path)
    {
        FILE* f = fopen(path, "rb");
        if (!f) throw std::runtime_error(std::string("cannot open ") + path);
        std::string t; char buf[65536]; size_t n;
        while ((n = fread(buf, 1, sizeof buf, f)) > 0) t.append(buf, n);
        fclose(f);
        return parse(t);
    }
};

} // namespace sim
