// Deterministic PRNG: splitmix64 seeding + xoshiro256**.  One integer decides everything.
#pragma once
#include <cstdint>
#include <cstddef>
#include <initializer_list>
#include <vector>

namespace sim {

inline uint64_t splitmix64(uint64_t& x)
{
    uint64_t z = (x += 0x9E3779B97F4A7C15ull);
    z = (z ^ (z >> 30)) * 0xBF58476D1CE4E5B9ull;
    z = (z ^ (z >> 27)) * 0x94D049BB133111EBull;
    return z ^ (z >> 31);
}

inline uint64_t mix(uint64_t a, uint64_t b)
{
    uint64_t x = a ^ (b * 0xD6E8FEB86659FD93ull);
    return splitmix64(x);
}

struct Rng
{
    uint64_t s[4];
    explicit Rng(uint64_t seed)
    {
        uint64_t x = seed;
        for (auto& v : s) v = splitmix64(x);
    }
    static uint64_t rotl(uint64_t x, int k) { return (x << k) | (x >> (64 - k)); }
    uint64_t next()
    {
        uint64_t const result = rotl(s[1] * 5, 7) * 9;
        uint64_t const t = s[1] << 17;
        s[2] ^= s[0]; s[3] ^= s[1]; s[1] ^= s[2]; s[0] ^= s[3];
        s[2] ^= t; s[3] = rotl(s[3], 45);
        return result;
    }
    // uniform in [0,n), n>0 (modulo bias irrelevant for our n)
    uint64_t below(uint64_t n) { return next() % n; }
    // uniform in [lo,hi]
    int64_t range(int64_t lo, int64_t hi) { return lo + (int64_t)below((uint64_t)(hi - lo + 1)); }
    bool chance(unsigned num, unsigned den) { return below(den) < num; }
    template <class T> T pick(std::initializer_list<T> l) { return *(l.begin() + below(l.size())); }
    template <class T> T const& pick(std::vector<T> const& v) { return v[below(v.size())]; }
};

// FNV-1a 64 for trace / digest hashing (address-free inputs only)
struct Hash
{
    uint64_t h = 0xcbf29ce484222325ull;
    void byte(unsigned char b) { h ^= b; h *= 0x100000001b3ull; }
    void u64(uint64_t v) { for (int i = 0; i < 8; ++i) byte((unsigned char)(v >> (8 * i))); }
    void bytes(void const* p, size_t n) { auto c = (unsigned char const*)p; for (size_t i = 0; i < n; ++i) byte(c[i]); }
    void str(char const* s) { while (*s) byte((unsigned char)*s++); byte(0); }
};

} // namespace sim
