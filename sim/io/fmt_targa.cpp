// TARGA: gil writer (raw, bottom-left) + harness encoders for RLE and top-left origin.
#include "iosim.hpp"
#include "fmt_common.hpp"
#include "iosim_rt.hpp"
#include <boost/gil/extension/io/targa.hpp>

namespace sim {
namespace {

using Tag = gil::targa_tag;
using R = Reader<Tag>;

bool make_hand(std::string const& v, int w, int h, uint64_t cs, Bytes& b)
{
    bool rle = v.find("rle") != std::string::npos, top = v.find("top") != std::string::npos, a32 = v.find("32") != std::string::npos;
    int idlen = v.find("id") != std::string::npos ? 5 : 0;
    int bpp = a32 ? 4 : 3;
    put8(b, idlen); put8(b, 0); put8(b, rle ? 10 : 2);
    put16le(b, 0); put16le(b, 0); put8(b, 0);
    put16le(b, 0); put16le(b, 0); put16le(b, w); put16le(b, h); put8(b, bpp * 8);
    put8(b, (a32 ? 8 : 0) | (top ? 32 : 0));
    for (int i = 0; i < idlen; ++i) put8(b, 'A' + i);
    Rng r(cs);
    long total = (long)w * h;
    if (!rle) { for (long i = 0; i < total * bpp; ++i) put8(b, (unsigned)r.below(256)); return true; }
    long done = 0;
    while (done < total)
    {
        long left = total - done;
        int n = (int)r.range(1, std::min<long>(left, 12));
        if (r.chance(1, 2)) { put8(b, 0x80 | (n - 1)); for (int c = 0; c < bpp; ++c) put8(b, (unsigned)r.below(256)); }
        else { put8(b, n - 1); for (int i = 0; i < n * bpp; ++i) put8(b, (unsigned)r.below(256)); }
        done += n;
    }
    return true;
}

bool make(std::string const& v, int w, int h, uint64_t cs, Bytes& out)
{
    out.clear();
    if (v == "rgb8") return write_with_gil<gil::rgb8_image_t, Tag>(w, h, cs, out, "tga");
    if (v == "rgba8") return write_with_gil<gil::rgba8_image_t, Tag>(w, h, cs, out, "tga");
    return make_hand(v, w, h, cs, out);
}

Outcome read(ReadSpec const& s, Bytes& b)
{
    char const* ext = "tga";
    if (s.entry == "info") return R::info(s, b, ext);
    if (s.entry == "any") return R::any<gil::any_image<gil::rgb8_image_t, gil::rgba8_image_t>>(s, b, ext);
    if (s.entry == "rci" || s.entry == "rcv")
    {
        if (s.type == "gray8") return R::convert_entry<gil::gray8_image_t>(s, b, ext);
        if (s.type == "rgb8") return R::convert_entry<gil::rgb8_image_t>(s, b, ext);
        if (s.type == "rgba8") return R::convert_entry<gil::rgba8_image_t>(s, b, ext);
    }
    else
    {
        if (s.type == "rgb8") return R::native_entry<gil::rgb8_image_t>(s, b, ext);
        if (s.type == "rgba8") return R::native_entry<gil::rgba8_image_t>(s, b, ext);
    }
    Outcome o; o.cls = "skipped:type"; return o;
}

std::vector<Field> fields(Bytes const& b)
{
    std::vector<Field> f = {{"idlen", 0, 1, false}, {"cmaptype", 1, 1, false}, {"imgtype", 2, 1, false}, {"cmapstart", 3, 2, false}, {"cmaplen", 5, 2, false},
            {"cmapdepth", 7, 1, false}, {"xorigin", 8, 2, false}, {"yorigin", 10, 2, false}, {"width", 12, 2, false}, {"height", 14, 2, false},
            {"bpp", 16, 1, false}, {"descriptor", 17, 1, false}};
    if (b.size() < 18) return f;
    if (b[2] == 10)
    {
        // run-length data: every packet header is a field (the last packets are the ones that can cross the image end)
        size_t off = 18 + b[0], bpp = b[16] / 8; long total = (long)get16le(b, 12) * get16le(b, 14), done = 0; int k = 0;
        while (off < b.size() && done < total && k < 24 && bpp)
        {
            f.push_back({"pkt" + std::to_string(k++), off, 1, false});
            unsigned c = b[off]; long n = (c & 0x7F) + 1;
            off += 1 + ((c & 0x80) ? bpp : (size_t)n * bpp);
            done += n;
        }
    }
    else { f.push_back({"data0", 18, 1, false}); }
    return f;
}
long declared(Bytes const& b) { return b.size() < 16 ? -1 : (long)get16le(b, 12) * (long)get16le(b, 14); }

Outcome roundtrip(Json const& plan)
{
    std::string v = plan.str("variant");
    gil::image_write_info<Tag> info;
    if (v == "rgb8") return RoundTrip<Tag, gil::rgb8_image_t, true>::run(plan, "tga", info);
    if (v == "rgba8") return RoundTrip<Tag, gil::rgba8_image_t, true>::run(plan, "tga", info);
    if (v == "bgr8") return RoundTrip<Tag, gil::bgr8_image_t, true>::run(plan, "tga", info);
    if (v == "bgra8") return RoundTrip<Tag, gil::bgra8_image_t, true>::run(plan, "tga", info);
    Outcome o; o.cls = "skipped:type"; return o;
}

Outcome paths(Json const& plan)
{
    std::string v = plan.str("variant");
    Bytes bytes;
    if (!make(v, (int)plan.num("w", 1), (int)plan.num("h", 1), (uint64_t)plan.num("cseed"), bytes)) { Outcome o; o.cls = "skipped:variant"; return o; }
    using any_t = gil::any_image<gil::rgb8_image_t, gil::rgba8_image_t>;
    static char const* const names[] = {"gray8", "rgb8", "rgba8"};
    using P3 = gil::gray8_pixel_t; using P4 = gil::rgb8_pixel_t; using P5 = gil::rgba8_pixel_t;
    PathsCfg cfg;
    cfg.seeks = true;
    cfg.scan_type_readable = true; // targa/detail/supported_types.hpp: bgr8 / bgra8 are read natively
    // targa/detail/scanline_read.hpp: "scanline reader cannot read this targa image type." (RLE) and
    // "scanline reader cannot read targa files which have screen origin bit set."
    cfg.scan_refused = v.find("rle") != std::string::npos || v.find("top") != std::string::npos;
    bool a32 = v == "rgba8" || v.find("32") != std::string::npos;
    if (a32) return PathsFor<Tag, gil::rgba8_image_t, any_t, gil::bgra8_image_t, P3, P4, P5>::run(plan, bytes, "tga", cfg, names);
    return PathsFor<Tag, gil::rgb8_image_t, any_t, gil::bgr8_image_t, P3, P4, P5>::run(plan, bytes, "tga", cfg, names);
}

Format make_format()
{
    Format f;
    f.name = "targa"; f.ext = "tga";
    f.variants = {{"rgb8", "rgb8"}, {"rgba8", "rgba8"}, {"rle24", "rgb8"}, {"rle32", "rgba8"}, {"top24", "rgb8"}, {"top32", "rgba8"},
                  {"rletop24", "rgb8"}, {"id24", "rgb8"}, {"rleid32", "rgba8"}};
    f.native_types = {"rgb8", "rgba8"};
    f.convert_types = {"gray8", "rgb8", "rgba8"};
    f.devices = {"FILE", "istream", "name"};
    f.write_types = {"rgb8", "rgba8", "bgr8", "bgra8"};
    f.roundtrip = roundtrip; f.paths = paths;
    f.make = make; f.read = read; f.fields = fields; f.declared_pixels = declared;
    return f;
}
Format g_fmt = make_format();
struct Reg { Reg() { formats().push_back(&g_fmt); } } g_reg;

} // namespace
} // namespace sim
