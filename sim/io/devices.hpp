// Simulated devices for gil's I/O layer (DESIGN.md 4.1): one Channel per open file, adapted to
//   FILE* (fopencookie), std::istream/std::ostream (own streambuf), file names (--wrap=fopen,
//   --wrap=TIFFOpen on a simulated disk) and TIFF* (TIFFClientOpen procs).
#pragma once
#ifndef _GNU_SOURCE
#define _GNU_SOURCE
#endif
#include "../core/prng.hpp"
#include <cerrno>
#include <cstdio>
#include <cstring>
#include <cstdint>
#include <istream>
#include <map>
#include <memory>
#include <ostream>
#include <streambuf>
#include <string>
#include <unistd.h>
#include <vector>

namespace sim {

using Bytes = std::vector<unsigned char>;

// ---- per-run context: step budget, counters, trace ------------------------------------------
struct IoCtx
{
    long steps = 0, steps_after_eof = 0;
    bool eof_seen = false;
    long budget_total = 1L << 40, budget_post_eof = 1L << 40;
    long reads = 0, seeks = 0, writes = 0, short_reads = 0, eio_fired = 0, seekfail_fired = 0, eof_hits = 0, opens = 0, closes = 0;
    long preambles = 0; // destinations that already held earlier output
    Hash trace;
    char where[160] = "";
    bool tracing = true;
};
inline IoCtx*& io_ctx() { static IoCtx* c = nullptr; return c; }

[[noreturn]] inline void die_budget(char const* which)
{
    IoCtx* c = io_ctx();
    char buf[400];
    int n = snprintf(buf, sizeof buf, "\nSIMSTEPS class=steps:%s site=%s detail=steps=%ld after_eof=%ld budget_total=%ld budget_post_eof=%ld\n",
                     which, c->where, c->steps, c->steps_after_eof, c->budget_total, c->budget_post_eof);
    if (n > 0) { ssize_t r = write(2, buf, (size_t)n); (void)r; }
    _exit(80);
}

inline void io_step()
{
    IoCtx* c = io_ctx();
    if (!c) return;
    ++c->steps;
    if (c->eof_seen && ++c->steps_after_eof > c->budget_post_eof) die_budget("post-eof-budget");
    if (c->steps > c->budget_total) die_budget("total-budget");
}

// ---- delivery schedule + faults for one open file -------------------------------------------
struct Schedule
{
    int kind = 0;            // 0 full, 1 one byte, 2 half, 3 pattern
    std::vector<int> pat;
    long eio_at = -1;        // k-th read call (0-based) fails with EIO
    bool eio_sticky = false; // every read from the eio_at-th on fails (a device that stays broken)
    long seekfail_at = -1;   // k-th seek call fails
    bool seekable = true;
};

struct Channel
{
    Bytes* data = nullptr;   // backing bytes on the simulated disk
    size_t pos = 0;
    Schedule sch;
    long nread = 0, nseek = 0;
    size_t pat_i = 0;
    bool writable = false, closed = false;
    size_t high_water = 0;   // highest offset asked for (to decide whether a truncation was "felt")

    size_t deliver(size_t want)
    {
        if (want == 0) return 0;
        switch (sch.kind)
        {
        case 1: return 1;
        case 2: return (want + 1) / 2;
        case 3:
            if (!sch.pat.empty())
            {
                size_t n = (size_t)std::max(1, sch.pat[pat_i++ % sch.pat.size()]);
                return n < want ? n : want;
            }
            return want;
        default: return want;
        }
    }
    long read(void* buf, size_t n)
    {
        io_step();
        IoCtx* c = io_ctx();
        long k = nread++;
        if (c) { ++c->reads; if (c->tracing) { c->trace.byte('r'); c->trace.u64(pos); c->trace.u64(n); } }
        if (sch.eio_at >= 0 && (k == sch.eio_at || (sch.eio_sticky && k > sch.eio_at))) { if (c) { ++c->eio_fired; c->eof_seen = true; } errno = EIO; return -1; }
        if (pos + n > high_water) high_water = pos + n;
        size_t avail = pos < data->size() ? data->size() - pos : 0;
        size_t m = deliver(n);
        if (m > avail) m = avail;
        if (m < n && m < avail + 0 && c) ++c->short_reads;
        if (m == 0) { if (c) { c->eof_seen = true; ++c->eof_hits; } return 0; }
        memcpy(buf, data->data() + pos, m);
        pos += m;
        return (long)m;
    }
    long write(void const* buf, size_t n)
    {
        io_step();
        IoCtx* c = io_ctx();
        if (c) { ++c->writes; if (c->tracing) { c->trace.byte('w'); c->trace.u64(pos); c->trace.u64(n); } }
        if (!writable) { errno = EBADF; return -1; }
        if (pos + n > data->size()) data->resize(pos + n);
        memcpy(data->data() + pos, buf, n);
        pos += n;
        return (long)n;
    }
    // returns new position or -1
    long long seek(long long off, int whence)
    {
        io_step();
        IoCtx* c = io_ctx();
        long k = nseek++;
        if (c) { ++c->seeks; if (c->tracing) { c->trace.byte('s'); c->trace.u64((uint64_t)off); c->trace.u64((uint64_t)whence); } }
        if (!sch.seekable || (sch.seekfail_at >= 0 && k == sch.seekfail_at)) { if (c) ++c->seekfail_fired; errno = ESPIPE; return -1; }
        long long base = whence == SEEK_SET ? 0 : whence == SEEK_CUR ? (long long)pos : (long long)data->size();
        long long np = base + off;
        if (np < 0) { errno = EINVAL; return -1; }
        pos = (size_t)np;
        return np;
    }
};

// ---- simulated disk --------------------------------------------------------------------------
struct Disk
{
    std::map<std::string, Bytes> files;
    Schedule default_read_schedule;            // applied to files opened by name
    std::vector<std::unique_ptr<Channel>> chans; // channels opened during the run (kept until end of run)
    int stdio_bufsz = -1;                        // setvbuf size for cookie FILEs opened by name (-1 default)

    Channel* open(std::string const& name, bool write, bool must_exist)
    {
        auto it = files.find(name);
        if (it == files.end())
        {
            if (must_exist) return nullptr;
            it = files.emplace(name, Bytes()).first;
        }
        if (write) it->second.clear();
        std::unique_ptr<Channel> ch(new Channel());
        ch->data = &it->second;
        ch->writable = write;
        if (!write) ch->sch = default_read_schedule;
        chans.push_back(std::move(ch));
        if (io_ctx()) ++io_ctx()->opens;
        return chans.back().get();
    }
    Channel* open_bytes(Bytes* b, bool write, Schedule const& s)
    {
        std::unique_ptr<Channel> ch(new Channel());
        ch->data = b; ch->writable = write; ch->sch = s;
        chans.push_back(std::move(ch));
        if (io_ctx()) ++io_ctx()->opens;
        return chans.back().get();
    }
};
inline Disk*& disk() { static Disk* d = nullptr; return d; }

// ---- FILE* via fopencookie ------------------------------------------------------------------
inline ssize_t ck_read(void* c, char* buf, size_t n) { return (ssize_t)((Channel*)c)->read(buf, n); }
inline ssize_t ck_write(void* c, char const* buf, size_t n)
{
    long r = ((Channel*)c)->write(buf, n);
    return r < 0 ? 0 : (ssize_t)r; // cookie write reports failure as 0
}
inline int ck_seek(void* c, off64_t* off, int whence)
{
    long long r = ((Channel*)c)->seek((long long)*off, whence);
    if (r < 0) return -1;
    *off = (off64_t)r;
    return 0;
}
inline int ck_close(void* c)
{
    ((Channel*)c)->closed = true;
    if (io_ctx()) ++io_ctx()->closes;
    return 0;
}
inline FILE* open_cookie(Channel* ch, char const* mode, int bufsz)
{
    cookie_io_functions_t io = {ck_read, ck_write, ck_seek, ck_close};
    FILE* f = fopencookie(ch, mode, io);
    if (!f) return nullptr;
    if (bufsz == 0) setvbuf(f, nullptr, _IONBF, 0);
    else if (bufsz > 0) setvbuf(f, nullptr, _IOFBF, (size_t)bufsz);
    return f;
}

// ---- streambuf --------------------------------------------------------------------------------
class Streambuf : public std::streambuf
{
    Channel* ch_;
    std::vector<char> gbuf_, pbuf_;
    int showmany_; // what showmanyc answers when the get area is empty: 0, -1 or 1 (=estimate)
    long long gbase_ = 0; // file offset of eback()
public:
    Streambuf(Channel* ch, size_t bufsz, int showmany = 0) : ch_(ch), gbuf_(bufsz ? bufsz : 1), pbuf_(bufsz ? bufsz : 1), showmany_(showmany)
    {
        setg(gbuf_.data(), gbuf_.data(), gbuf_.data());
        if (ch->writable) setp(pbuf_.data(), pbuf_.data() + pbuf_.size());
    }
    ~Streambuf() override {} // no implicit flush: unflushed bytes are lost, as on a power cut
protected:
    int_type underflow() override
    {
        if (gptr() < egptr()) return traits_type::to_int_type(*gptr());
        gbase_ = (long long)ch_->pos;
        long n = ch_->read(gbuf_.data(), gbuf_.size());
        if (n < 0)
        {   // an I/O error is not an end of file: like libstdc++'s basic_filebuf, report it by throwing; the istream
            // member that called us turns that into badbit (without eofbit)
            setg(gbuf_.data(), gbuf_.data(), gbuf_.data());
            throw std::ios_base::failure("sim::Streambuf::underflow: error reading the device");
        }
        if (n == 0) { setg(gbuf_.data(), gbuf_.data(), gbuf_.data()); return traits_type::eof(); }
        setg(gbuf_.data(), gbuf_.data(), gbuf_.data() + n);
        return traits_type::to_int_type(*gptr());
    }
    std::streamsize showmanyc() override
    {
        if (showmany_ < 0) return -1;
        if (showmany_ == 0) return 0;
        size_t avail = ch_->pos < ch_->data->size() ? ch_->data->size() - ch_->pos : 0;
        return avail ? (std::streamsize)avail : -1;
    }
    pos_type seekoff(off_type off, std::ios_base::seekdir dir, std::ios_base::openmode which) override
    {
        if (ch_->writable) { if (sync() != 0) return pos_type(off_type(-1)); }
        long long cur = ch_->writable ? (long long)ch_->pos : (long long)ch_->pos - (egptr() - gptr());
        if (off == 0 && dir == std::ios_base::cur) return pos_type(cur); // tellg/tellp: no device call
        long long target = dir == std::ios_base::beg ? off : dir == std::ios_base::cur ? cur + off : (long long)ch_->data->size() + off;
        (void)which;
        long long r = ch_->seek(target, SEEK_SET);
        if (r < 0) return pos_type(off_type(-1));
        setg(gbuf_.data(), gbuf_.data(), gbuf_.data());
        return pos_type(r);
    }
    pos_type seekpos(pos_type p, std::ios_base::openmode which) override { return seekoff(off_type(p), std::ios_base::beg, which); }
    int_type overflow(int_type c) override
    {
        if (!ch_->writable) return traits_type::eof();
        if (sync() != 0) return traits_type::eof();
        if (!traits_type::eq_int_type(c, traits_type::eof())) { *pptr() = traits_type::to_char_type(c); pbump(1); }
        return traits_type::not_eof(c);
    }
    int sync() override
    {
        if (!ch_->writable) return 0;
        std::ptrdiff_t n = pptr() - pbase();
        if (n > 0)
        {
            if (ch_->write(pbase(), (size_t)n) != n) return -1;
            setp(pbuf_.data(), pbuf_.data() + pbuf_.size());
        }
        return 0;
    }
};

} // namespace sim
