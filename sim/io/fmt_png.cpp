// PNG: gil writer for all supported types + libpng-written palette / tRNS / interlaced variants.
#include "iosim.hpp"
#include "fmt_common.hpp"
#include "iosim_rt.hpp"
#include <boost/gil/extension/io/png.hpp>
#include <png.h>
#include <zlib.h>

namespace sim {
namespace {

using Tag = gil::png_tag;
using R = Reader<Tag>;

void png_mem_write(png_structp png, png_bytep data, png_size_t n)
{
    Bytes* b = (Bytes*)png_get_io_ptr(png);
    b->insert(b->end(), data, data + n);
}
void png_mem_flush(png_structp) {}

// colour type / depth / interlace written with libpng directly from random samples
bool make_libpng(int w, int h, uint64_t cs, Bytes& out, int color_type, int depth, bool interlace, bool trns, bool meta = false)
{
    png_structp png = png_create_write_struct(PNG_LIBPNG_VER_STRING, nullptr, nullptr, nullptr);
    if (!png) return false;
    png_infop info = png_create_info_struct(png);
    if (setjmp(png_jmpbuf(png))) { png_destroy_write_struct(&png, &info); return false; }
    png_set_write_fn(png, &out, png_mem_write, png_mem_flush);
    png_set_IHDR(png, info, (png_uint_32)w, (png_uint_32)h, depth, color_type, interlace ? PNG_INTERLACE_ADAM7 : PNG_INTERLACE_NONE,
                 PNG_COMPRESSION_TYPE_DEFAULT, PNG_FILTER_TYPE_DEFAULT);
    Rng r(cs);
    png_color pal[256];
    png_byte tr[256];
    if (color_type == PNG_COLOR_TYPE_PALETTE)
    {
        int n = 1 << depth;
        for (int i = 0; i < n; ++i) { pal[i].red = (png_byte)r.below(256); pal[i].green = (png_byte)r.below(256); pal[i].blue = (png_byte)r.below(256); tr[i] = (png_byte)r.below(256); }
        png_set_PLTE(png, info, pal, n);
        if (trns) png_set_tRNS(png, info, tr, n, nullptr);
    }
    else if (trns)
    {
        png_color_16 t; memset(&t, 0, sizeof t);
        t.gray = 1; t.red = 1; t.green = 2; t.blue = 3;
        png_set_tRNS(png, info, nullptr, 0, &t);
    }
    if (meta)
    {
        // optional chunks, so that the metadata branches of the reader backend see data
        png_set_gAMA(png, info, 0.45455);
        png_set_cHRM(png, info, 0.3127, 0.3290, 0.64, 0.33, 0.30, 0.60, 0.15, 0.06);
        png_set_pHYs(png, info, 2835, 2835, PNG_RESOLUTION_METER);
        png_set_oFFs(png, info, 3, 4, PNG_OFFSET_PIXEL);
        png_color_8 sb; memset(&sb, 0, sizeof sb); sb.red = sb.green = sb.blue = sb.gray = sb.alpha = (png_byte)(depth > 8 ? 8 : depth);
        png_set_sBIT(png, info, &sb);
        png_color_16 bg; memset(&bg, 0, sizeof bg); bg.index = 1; bg.red = 10; bg.green = 20; bg.blue = 30; bg.gray = 5;
        png_set_bKGD(png, info, &bg);
        png_time tm; memset(&tm, 0, sizeof tm); tm.year = 2020; tm.month = 2; tm.day = 3; tm.hour = 4; tm.minute = 5; tm.second = 6;
        png_set_tIME(png, info, &tm);
        png_text txt[2]; memset(txt, 0, sizeof txt);
        char k1[] = "Title", v1[] = "simulated", k2[] = "Comment", v2[] = "a somewhat longer comment text for the tEXt chunk";
        txt[0].compression = PNG_TEXT_COMPRESSION_NONE; txt[0].key = k1; txt[0].text = v1; txt[0].text_length = strlen(v1);
        txt[1].compression = PNG_TEXT_COMPRESSION_zTXt; txt[1].key = k2; txt[1].text = v2; txt[1].text_length = strlen(v2);
        png_set_text(png, info, txt, 2);
        if (color_type == PNG_COLOR_TYPE_PALETTE)
        {
            png_uint_16 hist[256]; for (int i = 0; i < 256; ++i) hist[i] = (png_uint_16)(i * 3);
            png_set_hIST(png, info, hist);
        }
        else png_set_sRGB(png, info, PNG_sRGB_INTENT_PERCEPTUAL);
        char unit[] = "mm"; char p0[] = "0.5", p1[] = "2.0"; char* params[2] = {p0, p1}; char purpose[] = "cal";
        png_set_pCAL(png, info, purpose, 0, 100, PNG_EQUATION_LINEAR, 2, unit, params);
        png_set_sCAL(png, info, PNG_SCALE_METER, 1.5, 2.5);
    }
    png_write_info(png, info);
    int ch = color_type == PNG_COLOR_TYPE_RGB ? 3 : color_type == PNG_COLOR_TYPE_RGB_ALPHA ? 4 : color_type == PNG_COLOR_TYPE_GRAY_ALPHA ? 2 : 1;
    size_t rowbytes = ((size_t)w * (size_t)ch * (size_t)depth + 7) / 8;
    std::vector<Bytes> rows((size_t)h, Bytes(rowbytes));
    std::vector<png_bytep> ptrs;
    for (auto& row : rows) { for (auto& b : row) b = (unsigned char)r.below(256); ptrs.push_back(row.data()); }
    png_write_image(png, ptrs.data());
    png_write_end(png, info);
    png_destroy_write_struct(&png, &info);
    return true;
}

bool make(std::string const& v, int w, int h, uint64_t cs, Bytes& out)
{
    out.clear();
    if (v == "gray1") return write_with_gil<gil::gray1_image_t, Tag>(w, h, cs, out, "png");
    if (v == "gray2") return write_with_gil<gil::gray2_image_t, Tag>(w, h, cs, out, "png");
    if (v == "gray4") return write_with_gil<gil::gray4_image_t, Tag>(w, h, cs, out, "png");
    if (v == "gray8") return write_with_gil<gil::gray8_image_t, Tag>(w, h, cs, out, "png");
    if (v == "gray16") return write_with_gil<gil::gray16_image_t, Tag>(w, h, cs, out, "png");
    if (v == "ga8") return write_with_gil<gil::gray_alpha8_image_t, Tag>(w, h, cs, out, "png");
    if (v == "ga16") return write_with_gil<gil::gray_alpha16_image_t, Tag>(w, h, cs, out, "png");
    if (v == "rgb8") return write_with_gil<gil::rgb8_image_t, Tag>(w, h, cs, out, "png");
    if (v == "rgb16") return write_with_gil<gil::rgb16_image_t, Tag>(w, h, cs, out, "png");
    if (v == "rgba8") return write_with_gil<gil::rgba8_image_t, Tag>(w, h, cs, out, "png");
    if (v == "rgba16") return write_with_gil<gil::rgba16_image_t, Tag>(w, h, cs, out, "png");
    if (v == "pal8") return make_libpng(w, h, cs, out, PNG_COLOR_TYPE_PALETTE, 8, false, false);
    if (v == "pal4") return make_libpng(w, h, cs, out, PNG_COLOR_TYPE_PALETTE, 4, false, false);
    if (v == "pal1") return make_libpng(w, h, cs, out, PNG_COLOR_TYPE_PALETTE, 1, false, false);
    if (v == "pal8trns") return make_libpng(w, h, cs, out, PNG_COLOR_TYPE_PALETTE, 8, false, true);
    if (v == "rgb8trns") return make_libpng(w, h, cs, out, PNG_COLOR_TYPE_RGB, 8, false, true);
    if (v == "gray8trns") return make_libpng(w, h, cs, out, PNG_COLOR_TYPE_GRAY, 8, false, true);
    if (v == "rgb8i") return make_libpng(w, h, cs, out, PNG_COLOR_TYPE_RGB, 8, true, false);
    if (v == "gray4i") return make_libpng(w, h, cs, out, PNG_COLOR_TYPE_GRAY, 4, true, false);
    if (v == "rgba16i") return make_libpng(w, h, cs, out, PNG_COLOR_TYPE_RGB_ALPHA, 16, true, false);
    if (v == "rgb8meta") return make_libpng(w, h, cs, out, PNG_COLOR_TYPE_RGB, 8, false, false, true);
    if (v == "pal8meta") return make_libpng(w, h, cs, out, PNG_COLOR_TYPE_PALETTE, 8, false, false, true);
    if (v == "gray16meta") return make_libpng(w, h, cs, out, PNG_COLOR_TYPE_GRAY, 16, false, false, true);
    return false;
}

std::vector<Variant> const& g_fmt_variants()
{
    static std::vector<Variant> const v = {{"gray1", "gray1"}, {"gray2", "gray2"}, {"gray4", "gray4"}, {"gray8", "gray8"}, {"gray16", "gray16"}, {"ga8", "ga8"}, {"ga16", "ga16"},
                  {"rgb8", "rgb8"}, {"rgb16", "rgb16"}, {"rgba8", "rgba8"}, {"rgba16", "rgba16"},
                  {"pal8", "rgb8"}, {"pal4", "rgb8"}, {"pal1", "rgb8"}, {"pal8trns", "rgba8"}, {"rgb8trns", "rgba8"}, {"gray8trns", "ga8"},
                  {"rgb8i", "rgb8"}, {"gray4i", "gray4"}, {"rgba16i", "rgba16"}, {"rgb8meta", "rgb8"}, {"pal8meta", "rgb8"}, {"gray16meta", "gray16"}};
    return v;
}

using any_t = gil::any_image<gil::gray8_image_t, gil::gray16_image_t, gil::rgb8_image_t, gil::rgba8_image_t, gil::rgb16_image_t, gil::rgba16_image_t>;

Outcome read(ReadSpec const& s, Bytes& b)
{
    char const* ext = "png";
    if (s.entry == "info") return R::info(s, b, ext);
    if (s.entry == "any") return R::any<any_t>(s, b, ext);
    if (s.entry == "rci" || s.entry == "rcv")
    {
        if (s.type == "gray8") return R::convert_entry<gil::gray8_image_t>(s, b, ext);
        if (s.type == "rgb8") return R::convert_entry<gil::rgb8_image_t>(s, b, ext);
        if (s.type == "rgba8") return R::convert_entry<gil::rgba8_image_t>(s, b, ext);
        if (s.type == "rgb16") return R::convert_entry<gil::rgb16_image_t>(s, b, ext);
    }
    else
    {
        if (s.type == "gray1") return R::native_entry<gil::gray1_image_t>(s, b, ext);
        if (s.type == "gray2") return R::native_entry<gil::gray2_image_t>(s, b, ext);
        if (s.type == "gray4") return R::native_entry<gil::gray4_image_t>(s, b, ext);
        if (s.type == "gray8") return R::native_entry<gil::gray8_image_t>(s, b, ext);
        if (s.type == "gray16") return R::native_entry<gil::gray16_image_t>(s, b, ext);
        if (s.type == "ga8") return R::native_entry<gil::gray_alpha8_image_t>(s, b, ext);
        if (s.type == "ga16") return R::native_entry<gil::gray_alpha16_image_t>(s, b, ext);
        if (s.type == "rgb8") return R::native_entry<gil::rgb8_image_t>(s, b, ext);
        if (s.type == "rgb16") return R::native_entry<gil::rgb16_image_t>(s, b, ext);
        if (s.type == "rgba8") return R::native_entry<gil::rgba8_image_t>(s, b, ext);
        if (s.type == "rgba16") return R::native_entry<gil::rgba16_image_t>(s, b, ext);
    }
    Outcome o; o.cls = "skipped:type"; return o;
}

// chunk walk; "set" faults on IHDR fields are re-sealed (CRC recomputed) by the crc op that follows them
std::vector<Field> fields(Bytes const& b)
{
    std::vector<Field> f = {{"sig", 0, 4, true}, {"ihdr_len", 8, 4, true}, {"width", 16, 4, true}, {"height", 20, 4, true}, {"depth", 24, 1, true},
                            {"ctype", 25, 1, true}, {"compression", 26, 1, true}, {"filter", 27, 1, true}, {"interlace", 28, 1, true}, {"ihdr_crc", 29, 4, true}};
    size_t off = 8; int n = 0;
    while (off + 12 <= b.size() && n < 12)
    {
        uint32_t len = get32be(b, off);
        std::string type((char const*)&b[off + 4], 4);
        if (n > 0) { f.push_back({type + "_len", off, 4, true}); f.push_back({type + "_type", off + 4, 4, true}); if (len) f.push_back({type + "_data0", off + 8, 1, true}); }
        if ((size_t)len > b.size()) break;
        off += 12 + len; ++n;
    }
    return f;
}
long declared(Bytes const& b)
{
    if (b.size() < 24) return -1;
    uint64_t w = get32be(b, 16), h = get32be(b, 20);
    if (w > (1u << 24) || h > (1u << 24)) return -1;
    return (long)(w * h);
}

Outcome roundtrip(Json const& plan)
{
    std::string v = plan.str("variant");
    gil::image_write_info<Tag> info;
    for (auto const& o : plan.at("opts").a)
    {
        if (o.s == "z1") info._compression_level = 1;
        if (o.s == "z9") info._compression_level = 9;
        if (o.s == "interlace") info._interlace_method = PNG_INTERLACE_ADAM7;
    }
    if (v == "gray1") return RoundTrip<Tag, gil::gray1_image_t, false>::run(plan, "png", info);
    if (v == "gray2") return RoundTrip<Tag, gil::gray2_image_t, false>::run(plan, "png", info);
    if (v == "gray4") return RoundTrip<Tag, gil::gray4_image_t, false>::run(plan, "png", info);
    if (v == "gray8") return RoundTrip<Tag, gil::gray8_image_t, false>::run(plan, "png", info);
    if (v == "gray16") return RoundTrip<Tag, gil::gray16_image_t, false>::run(plan, "png", info);
    if (v == "ga8") return RoundTrip<Tag, gil::gray_alpha8_image_t, false>::run(plan, "png", info);
    if (v == "ga16") return RoundTrip<Tag, gil::gray_alpha16_image_t, false>::run(plan, "png", info);
    if (v == "rgb8") return RoundTrip<Tag, gil::rgb8_image_t, true>::run(plan, "png", info);
    if (v == "rgb16") return RoundTrip<Tag, gil::rgb16_image_t, true>::run(plan, "png", info);
    if (v == "rgba8") return RoundTrip<Tag, gil::rgba8_image_t, true>::run(plan, "png", info);
    if (v == "rgba16") return RoundTrip<Tag, gil::rgba16_image_t, true>::run(plan, "png", info);
    if (v == "bgr8") return RoundTrip<Tag, gil::bgr8_image_t, true>::run(plan, "png", info);
    if (v == "bgra8") return RoundTrip<Tag, gil::bgra8_image_t, true>::run(plan, "png", info);
    if (v == "argb8") return RoundTrip<Tag, gil::argb8_image_t, true>::run(plan, "png", info);
    Outcome o; o.cls = "skipped:type"; return o;
}

template <class Native> Outcome paths_for(Json const& plan, Bytes& bytes, PathsCfg const& cfg)
{
    static char const* const names[] = {"gray8", "rgb8", "rgba8", "rgb16"};
    return PathsFor<Tag, Native, any_t, Native, gil::gray8_pixel_t, gil::rgb8_pixel_t, gil::rgba8_pixel_t, gil::rgb16_pixel_t>::run(plan, bytes, "png", cfg, names);
}

Outcome paths(Json const& plan)
{
    std::string v = plan.str("variant");
    Bytes bytes;
    if (!make(v, (int)plan.num("w", 1), (int)plan.num("h", 1), (uint64_t)plan.num("cseed"), bytes)) { Outcome o; o.cls = "skipped:variant"; return o; }
    PathsCfg cfg;
    // png/detail/scanline_read.hpp: "scanline_read_iterator cannot read interlaced png images."
    cfg.scan_refused = v == "rgb8i" || v == "gray4i" || v == "rgba16i";
    std::string native;
    for (auto const& x : g_fmt_variants()) if (x.name == v) native = x.native;
    cfg.any_ok = native == "gray8" || native == "gray16" || native == "rgb8" || native == "rgba8" || native == "rgb16" || native == "rgba16";
    if (native == "gray1") return paths_for<gil::gray1_image_t>(plan, bytes, cfg);
    if (native == "gray2") return paths_for<gil::gray2_image_t>(plan, bytes, cfg);
    if (native == "gray4") return paths_for<gil::gray4_image_t>(plan, bytes, cfg);
    if (native == "gray8") return paths_for<gil::gray8_image_t>(plan, bytes, cfg);
    if (native == "gray16") return paths_for<gil::gray16_image_t>(plan, bytes, cfg);
    if (native == "ga8") return paths_for<gil::gray_alpha8_image_t>(plan, bytes, cfg);
    if (native == "ga16") return paths_for<gil::gray_alpha16_image_t>(plan, bytes, cfg);
    if (native == "rgb8") return paths_for<gil::rgb8_image_t>(plan, bytes, cfg);
    if (native == "rgb16") return paths_for<gil::rgb16_image_t>(plan, bytes, cfg);
    if (native == "rgba8") return paths_for<gil::rgba8_image_t>(plan, bytes, cfg);
    if (native == "rgba16") return paths_for<gil::rgba16_image_t>(plan, bytes, cfg);
    Outcome o; o.cls = "skipped:variant"; return o;
}

Format make_format()
{
    Format f;
    f.name = "png"; f.ext = "png";
    f.variants = g_fmt_variants();
    f.native_types = {"gray1", "gray2", "gray4", "gray8", "gray16", "ga8", "ga16", "rgb8", "rgb16", "rgba8", "rgba16"};
    f.convert_types = {"gray8", "rgb8", "rgba8", "rgb16"};
    f.devices = {"FILE", "istream", "name"};
    f.write_types = {"gray1", "gray2", "gray4", "gray8", "gray16", "ga8", "ga16", "rgb8", "rgb16", "rgba8", "rgba16", "bgr8", "bgra8", "argb8"};
    f.write_options = {"z1", "z9"}; // ADAM7 is not offered: the writer emits one pass only and libpng then aborts in png_write_end
    f.roundtrip = roundtrip; f.paths = paths;
    f.make = make; f.read = read; f.fields = fields; f.declared_pixels = declared;
    return f;
}
Format g_fmt = make_format();
struct Reg { Reg() { formats().push_back(&g_fmt); } } g_reg;

} // namespace
} // namespace sim
