// JPEG: gil writer (gray8, rgb8, cmyk8).
#include "iosim.hpp"
#include "fmt_common.hpp"
#include "iosim_rt.hpp"
#include <boost/gil/extension/io/jpeg.hpp>

namespace sim {
namespace {

using Tag = gil::jpeg_tag;
using R = Reader<Tag>;

bool make_raw(std::string const& v, int w, int h, uint64_t cs, Bytes& out);

// gil's jpeg writer flushes its whole 1024-byte buffer on close, so every file ends with up to 1023 bytes of
// never-written stack memory after the EOI marker (observation outside the claimed properties, see DESIGN.md 9.7).
// Those bytes differ between the A and B builds; base files are cut after EOI so that both builds read the same input.
bool make(std::string const& v, int w, int h, uint64_t cs, Bytes& out)
{
    if (!make_raw(v, w, h, cs, out)) return false;
    for (size_t i = out.size(); i >= 2; --i)
        if (out[i - 2] == 0xFF && out[i - 1] == 0xD9) { out.resize(i); break; }
    return true;
}

bool make_raw(std::string const& v, int w, int h, uint64_t cs, Bytes& out)
{
    out.clear();
    int mode = 2; // blocky content: keeps files small and decodable
    if (v == "gray8") return write_with_gil<gil::gray8_image_t, Tag>(w, h, cs, out, "jpg", mode);
    if (v == "rgb8") return write_with_gil<gil::rgb8_image_t, Tag>(w, h, cs, out, "jpg", mode);
    if (v == "cmyk8") return write_with_gil<gil::cmyk8_image_t, Tag>(w, h, cs, out, "jpg", mode);
    if (v == "rgb8q50") { gil::image_write_info<Tag> info; info._quality = 50; return write_with_gil_info<gil::rgb8_image_t, Tag>(w, h, cs, out, info, 0); }
    if (v == "rgb8com" || v == "gray8app")
    {
        // gil's writer (libjpeg) only emits a 16-byte APP0, which libjpeg parses itself. Files from cameras and editors carry
        // COM / APPn segments that the reader must *skip* (skip_input_data of gil's source manager), possibly across several
        // refills of its buffer: insert one or two such segments after APP0
        if (!make_raw(v == "rgb8com" ? "rgb8" : "gray8", w, h, cs, out)) return false;
        if (out.size() < 20 || out[2] != 0xFF || out[3] != 0xE0) return true;
        size_t at = 4 + ((size_t)out[4] << 8 | out[5]);
        Rng r(cs ^ 0xC0FFEE);
        Bytes seg;
        int nseg = v == "rgb8com" ? 1 : 2;
        for (int k = 0; k < nseg; ++k)
        {
            size_t len = (size_t)r.pick({10, 300, 1100, 2100, 5000});
            seg.push_back(0xFF); seg.push_back(v == "rgb8com" ? 0xFE : (unsigned char)(0xE1 + k));
            seg.push_back((unsigned char)((len + 2) >> 8)); seg.push_back((unsigned char)((len + 2) & 0xFF));
            for (size_t q = 0; q < len; ++q) seg.push_back((unsigned char)r.below(256));
        }
        out.insert(out.begin() + (std::ptrdiff_t)at, seg.begin(), seg.end());
        return true;
    }
    return false;
}

Outcome read(ReadSpec const& s, Bytes& b)
{
    char const* ext = "jpg";
    if (s.entry == "info") return R::info(s, b, ext);
    if (s.entry == "any") return R::any<gil::any_image<gil::gray8_image_t, gil::rgb8_image_t, gil::cmyk8_image_t>>(s, b, ext);
    if (s.entry == "rci" || s.entry == "rcv")
    {
        if (s.type == "gray8") return R::convert_entry<gil::gray8_image_t>(s, b, ext);
        if (s.type == "rgb8") return R::convert_entry<gil::rgb8_image_t>(s, b, ext);
        if (s.type == "rgba8") return R::convert_entry<gil::rgba8_image_t>(s, b, ext);
    }
    else
    {
        if (s.type == "gray8") return R::native_entry<gil::gray8_image_t>(s, b, ext);
        if (s.type == "rgb8") return R::native_entry<gil::rgb8_image_t>(s, b, ext);
        if (s.type == "cmyk8") return R::native_entry<gil::cmyk8_image_t>(s, b, ext);
    }
    Outcome o; o.cls = "skipped:type"; return o;
}

// walk the marker segments
std::vector<Field> fields(Bytes const& b)
{
    std::vector<Field> f = {{"soi", 0, 2, true}};
    size_t off = 2; int n = 0;
    while (off + 4 <= b.size() && n < 24)
    {
        if (b[off] != 0xFF) break;
        unsigned m = b[off + 1];
        unsigned len = get16be(b, off + 2);
        char nm[16]; snprintf(nm, sizeof nm, "m%02X", m);
        f.push_back({std::string(nm) + "_marker", off + 1, 1, true});
        f.push_back({std::string(nm) + "_len", off + 2, 2, true});
        if (m >= 0xC0 && m <= 0xC2)
        {
            f.push_back({"precision", off + 4, 1, true}); f.push_back({"height", off + 5, 2, true}); f.push_back({"width", off + 7, 2, true});
            f.push_back({"ncomp", off + 9, 1, true}); f.push_back({"comp0_id", off + 10, 1, true}); f.push_back({"comp0_sampling", off + 11, 1, true}); f.push_back({"comp0_tq", off + 12, 1, true});
        }
        if (m == 0xDA) { f.push_back({"sos_ncomp", off + 4, 1, true}); f.push_back({"sos_comp0", off + 5, 1, true}); f.push_back({"sos_tbl0", off + 6, 1, true}); f.push_back({"ecs0", off + 2 + len, 1, true}); break; }
        off += 2 + len; ++n;
    }
    return f;
}
long declared(Bytes const& b)
{
    for (auto const& fd : fields(b))
        if (fd.name == "height") return (long)get16be(b, fd.off) * (long)get16be(b, fd.off + 2);
    return -1;
}

Outcome roundtrip(Json const& plan)
{
    std::string v = plan.str("variant");
    gil::image_write_info<Tag> info; // default quality 100
    if (v == "gray8") return RoundTrip<Tag, gil::gray8_image_t, false, true>::run(plan, "jpg", info);
    if (v == "rgb8") return RoundTrip<Tag, gil::rgb8_image_t, true, true>::run(plan, "jpg", info);
    if (v == "bgr8") return RoundTrip<Tag, gil::bgr8_image_t, true, true>::run(plan, "jpg", info);
    if (v == "cmyk8") return RoundTrip<Tag, gil::cmyk8_image_t, true, true>::run(plan, "jpg", info);
    Outcome o; o.cls = "skipped:type"; return o;
}

template <class Native> Outcome paths_for(Json const& plan, Bytes& bytes, PathsCfg const& cfg)
{
    using any_t = gil::any_image<gil::gray8_image_t, gil::rgb8_image_t, gil::cmyk8_image_t>;
    static char const* const names[] = {"gray8", "rgb8", "rgba8"};
    return PathsFor<Tag, Native, any_t, Native, gil::gray8_pixel_t, gil::rgb8_pixel_t, gil::rgba8_pixel_t>::run(plan, bytes, "jpg", cfg, names);
}

Outcome paths(Json const& plan)
{
    std::string v = plan.str("variant");
    Bytes bytes;
    if (!make(v, (int)plan.num("w", 1), (int)plan.num("h", 1), (uint64_t)plan.num("cseed"), bytes)) { Outcome o; o.cls = "skipped:variant"; return o; }
    PathsCfg cfg;
    if (v == "gray8" || v == "gray8app") return paths_for<gil::gray8_image_t>(plan, bytes, cfg);
    if (v == "cmyk8") return paths_for<gil::cmyk8_image_t>(plan, bytes, cfg);
    return paths_for<gil::rgb8_image_t>(plan, bytes, cfg);
}

Format make_format()
{
    Format f;
    f.name = "jpeg"; f.ext = "jpg";
    f.variants = {{"gray8", "gray8"}, {"rgb8", "rgb8"}, {"cmyk8", "cmyk8"}, {"rgb8q50", "rgb8"}, {"rgb8com", "rgb8"}, {"gray8app", "gray8"}};
    f.native_types = {"gray8", "rgb8", "cmyk8"};
    f.convert_types = {"gray8", "rgb8", "rgba8"};
    f.devices = {"FILE", "istream", "name"};
    f.write_types = {"gray8", "rgb8", "cmyk8", "bgr8"};
    f.roundtrip = roundtrip; f.paths = paths;
    f.make = make; f.read = read; f.fields = fields; f.declared_pixels = declared;
    return f;
}
Format g_fmt = make_format();
struct Reg { Reg() { formats().push_back(&g_fmt); } } g_reg;

} // namespace
} // namespace sim
