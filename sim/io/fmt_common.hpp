// helpers shared by the per-format translation units
#pragma once
#include "iosim.hpp"

namespace sim {

inline void put8(Bytes& b, unsigned v) { b.push_back((unsigned char)v); }
inline void put16le(Bytes& b, unsigned v) { put8(b, v & 255); put8(b, (v >> 8) & 255); }
inline void put32le(Bytes& b, uint32_t v) { put16le(b, v & 0xFFFF); put16le(b, v >> 16); }
inline void put16be(Bytes& b, unsigned v) { put8(b, (v >> 8) & 255); put8(b, v & 255); }
inline void put32be(Bytes& b, uint32_t v) { put16be(b, v >> 16); put16be(b, v & 0xFFFF); }
inline unsigned get16le(Bytes const& b, size_t o) { return o + 1 < b.size() ? (unsigned)b[o] | ((unsigned)b[o + 1] << 8) : 0; }
inline uint32_t get32le(Bytes const& b, size_t o) { return (uint32_t)get16le(b, o) | ((uint32_t)get16le(b, o + 2) << 16); }
inline unsigned get16be(Bytes const& b, size_t o) { return o + 1 < b.size() ? ((unsigned)b[o] << 8) | (unsigned)b[o + 1] : 0; }
inline uint32_t get32be(Bytes const& b, size_t o) { return ((uint32_t)get16be(b, o) << 16) | (uint32_t)get16be(b, o + 2); }
inline void set32le(Bytes& b, size_t o, uint32_t v) { for (int i = 0; i < 4; ++i) if (o + (size_t)i < b.size()) b[o + (size_t)i] = (unsigned char)(v >> (8 * i)); }

// write a deterministic image of type Img with gil's own writer through a pristine FILE*
template <class Img, class Tag, class Info>
bool write_with_gil_info(int w, int h, uint64_t cs, Bytes& out, Info const& info, int mode = 0)
{
    Img img(w, h);
    fill_pattern(gil::view(img), cs, mode);
    out.clear();
    Schedule s;
    Channel* ch = disk()->open_bytes(&out, true, s);
    FILE* fp = open_cookie(ch, "wb", -1);
    if (!fp) return false;
    gil::write_view(fp, gil::view(img), info); // gil closes fp
    return true;
}
template <class Img, class Tag>
bool write_with_gil(int w, int h, uint64_t cs, Bytes& out, char const*, int mode = 0)
{
    return write_with_gil_info<Img, Tag>(w, h, cs, out, gil::image_write_info<Tag>(), mode);
}

} // namespace sim
