// iosim driver: plan generation (C11/C12/C13 modes), worker loop, replay.
#include "../core/json.hpp"
#include "../core/prng.hpp"
#include "../core/proc.hpp"
#include "iosim.hpp"
#include <algorithm>
#include <map>
#include <cstdio>
#include <cstring>

#ifndef SIM_POISON_BYTE
#define SIM_POISON_BYTE 0x00
#endif
// C-library mallocs (libpng/libjpeg/libtiff internals) get the same fill in both builds: what those libraries do with
// their own never-written memory is not judged; only gil-owned memory (operator new, stack) differs between A and B.
SIM_SANITIZER_DEFAULTS(":malloc_fill_byte=190:max_malloc_fill_size=1048576:max_allocation_size_mb=256")

namespace sim {

std::vector<Format*>& formats() { static std::vector<Format*> v; return v; }

static std::vector<Format*> sorted_formats()
{
    auto v = formats();
    std::sort(v.begin(), v.end(), [](Format* a, Format* b) { return a->name < b->name; });
    return v;
}

struct RunResult
{
    Outcome o;
    IoCtx ctx;
    long file_faults_fired = 0;
    size_t file_size = 0, high_water = 0;
    std::string cfg;
};

static Json boundary_values(int width, uint64_t cur)
{
    Json a = Json::array();
    uint64_t mx = width >= 8 ? ~0ull : ((1ull << (8 * width)) - 1);
    for (uint64_t v : std::initializer_list<uint64_t>{0, 1, 2, mx, mx - 1, (mx >> 1) + 1, mx >> 1, cur + 1, cur - 1, cur * 2, cur + 8, 255, 256, 65535, 65536})
        a.push((long long)(v & mx & 0x7fffffffffffffffull));
    return a;
}

// ------------------------------------------------------------------------------ C11 plans
static Json gen_c11(uint64_t seed, long i, std::vector<Format*> const& fmts)
{
    Rng r(mix(seed ^ 0xC11, (uint64_t)i));
    Format* f = fmts[r.below(fmts.size())];
    Variant const& v = f->variants[r.below(f->variants.size())];
    Json p = Json::object();
    p.set("engine", "iosim"); p.set("mode", "c11"); p.set("index", (long long)i);
    p.set("fmt", f->name); p.set("variant", v.name);
    int w = (int)(r.chance(3, 4) ? r.range(1, 9) : r.range(1, 33)), h = (int)(r.chance(3, 4) ? r.range(1, 6) : r.range(1, 20));
    p.set("w", w); p.set("h", h); p.set("cseed", (long long)r.below(1u << 30));
    // entry + type
    std::vector<std::string> entries = {"info", "read_image", "read_image", "read_view", "rci", "rci", "rcv"};
    if (f->has_scanline) entries.push_back("scanline");
    if (f->has_any) entries.push_back("any");
    std::string e = r.pick(entries);
    p.set("entry", e);
    if (e == "rci" || e == "rcv") p.set("type", r.pick(f->convert_types));
    else p.set("type", r.chance(5, 6) ? v.native : r.pick(f->native_types));
    p.set("dev", r.pick(f->devices));
    unsigned sk = (unsigned)r.below(10);
    p.set("sched", sk < 5 ? "full" : sk < 7 ? "one" : sk < 8 ? "half" : "pat");
    if (sk >= 8) { Json pat = Json::array(); int n = (int)r.range(1, 5); for (int k = 0; k < n; ++k) pat.push((int)r.pick({1, 2, 3, 5, 7, 13, 64, 1000})); p.set("pat", pat); }
    p.set("bufsz", r.pick({-1, -1, 0, 1, 7, 64, 512, 4096}));
    p.set("showmany", r.pick({0, 0, 1, -1}));
    if (f->name == "png" && r.chance(1, 2)) p.set("meta", 1);
    if (e == "scanline" && r.chance(1, 2)) p.set("skip", (int)r.below(65536));
    // image_read_settings(top_left, dim): a region that lies inside the image the *valid* file declares; what the
    // corrupted file declares may be smaller, which the reader has to notice
    if (e != "info" && e != "scanline" && r.chance(1, 4))
    {
        int x = (int)r.below((unsigned)w), y = (int)r.below((unsigned)h);
        Json sb = Json::array();
        sb.push(x); sb.push(y); sb.push((int)r.range(1, w - x)); sb.push((int)r.range(1, h - y));
        p.set("sub", sb);
    }
    // faults
    Bytes base;
    f->make(v.name, w, h, (uint64_t)p.num("cseed"), base);
    size_t n = base.size() ? base.size() : 1;
    auto flds = f->fields ? f->fields(base) : std::vector<Field>();
    Json ops = Json::array();
    int nf = (int)r.pick({1, 1, 1, 2, 2, 3});
    for (int k = 0; k < nf; ++k)
    {
        Json o = Json::object();
        unsigned fk = (unsigned)r.below(100);
        if (fk < 22) { o.set("f", "trunc"); o.set("n", (long long)r.below(n)); }
        else if (fk < 40) { o.set("f", "flip"); o.set("off", (long long)(r.chance(1, 2) ? r.below(std::min<size_t>(n, 64)) : r.below(n))); o.set("bit", (int)r.below(8)); }
        else if (fk < 68 && !flds.empty())
        {
            Field const& fd = flds[r.below(flds.size())];
            uint64_t cur = 0;
            for (int b = 0; b < fd.width && fd.off + (size_t)b < base.size(); ++b)
                cur |= (uint64_t)base[fd.off + (size_t)b] << (fd.be ? 8 * (fd.width - 1 - b) : 8 * b);
            Json bv = boundary_values(fd.width, cur);
            o.set("f", "set"); o.set("field", fd.name); o.set("off", (long long)fd.off); o.set("width", fd.width); o.set("be", fd.be ? 1 : 0);
            o.set("val", bv.a[r.below(bv.a.size())]);
        }
        else if (fk < 82)
        {
            o.set("f", "splice"); o.set("off", (long long)r.below(n));
            Json bs = Json::array(); int len = (int)r.range(1, 8);
            for (int q = 0; q < len; ++q) bs.push((int)(r.chance(1, 3) ? r.pick({0, 255, 1, 128, 127}) : (int)r.below(256)));
            o.set("bytes", bs);
        }
        else if (fk < 86) { o.set("f", "cut"); o.set("off", (long long)r.below(n)); o.set("len", (int)r.range(1, 16)); }
        else if (fk < 89)
        {
            o.set("f", "insert"); o.set("off", (long long)r.below(n));
            Json bs = Json::array(); int len = (int)r.range(1, 8);
            for (int q = 0; q < len; ++q) bs.push((int)r.below(256));
            o.set("bytes", bs);
        }
        else if (fk < 91) { o.set("f", "digits"); o.set("off", (long long)r.below(n)); o.set("len", (int)r.below(64)); o.set("d", (int)r.below(10)); }
        else if (fk < 95) { o.set("f", "eio"); o.set("k", (int)r.below(12)); if (r.chance(1, 2)) o.set("sticky", 1); }
        else if (fk < 98) { o.set("f", "seekfail"); o.set("k", (int)r.below(6)); }
        else { o.set("f", "noseek"); }
        ops.push(o);
    }
    if (f->name == "png" && r.chance(2, 3)) { Json o = Json::object(); o.set("f", "pngcrc"); ops.push(o); }
    p.set("ops", ops);
    return p;
}

static Json gen_devspec(Rng& r, Format* f, bool for_write)
{
    Json d = Json::object();
    d.set("dev", r.pick(f->devices));
    d.set("bufsz", r.pick({-1, -1, 0, 1, 7, 64, 512, 4096}));
    std::string dk = d.str("dev");
    bool stream_like = dk == "FILE" || dk == "istream";
    // legal but unusual devices: earlier output in the destination, devices that cannot seek
    bool un1 = r.chance(1, 5), un2 = r.chance(1, 8);
    int pre = (int)r.pick({1, 7, 54, 100, 4097});
    // (not for TIFF: libtiffxx's TIFFStreamOpen, to which gil hands the ostream, does not produce a readable file when the
    // stream is not at position 0 - reproduced with a plain std::stringstream outside gil; DESIGN.md 9.3)
    if (for_write && stream_like && un1 && f->name != "tiff") d.set("pre", pre);
    if (stream_like && un2 && f->name != "tiff") d.set("noseek", 1);
    if (!for_write)
    {
        unsigned sk = (unsigned)r.below(10);
        d.set("sched", sk < 5 ? "full" : sk < 7 ? "one" : sk < 8 ? "half" : "pat");
        if (sk >= 8) { Json pat = Json::array(); int n = (int)r.range(1, 4); for (int k = 0; k < n; ++k) pat.push((int)r.pick({1, 2, 3, 5, 7, 13, 64, 1000})); d.set("pat", pat); }
        d.set("showmany", r.pick({0, 0, 1, -1}));
    }
    return d;
}

// ------------------------------------------------------------------------------ C12 plans
static Json gen_c12(uint64_t seed, long i, std::vector<Format*> const& fmts)
{
    Rng r(mix(seed ^ 0xC12, (uint64_t)i));
    std::vector<Format*> wf;
    for (auto f : fmts) if (!f->write_types.empty() && f->roundtrip) wf.push_back(f);
    Json p = Json::object();
    if (wf.empty()) return p;
    Format* f = wf[r.below(wf.size())];
    p.set("engine", "iosim"); p.set("mode", "c12"); p.set("index", (long long)i);
    p.set("fmt", f->name); p.set("variant", r.pick(f->write_types));
    int w = (int)(r.chance(2, 3) ? r.range(1, 17) : r.range(1, 40)), h = (int)(r.chance(2, 3) ? r.range(1, 9) : r.range(1, 40));
    if (f->name == "tiff" && r.chance(1, 3)) { w = (int)r.pick({15, 16, 17, 31, 32, 33}); h = (int)r.pick({1, 15, 16, 17, 33}); }
    // dimensions around the byte boundaries of the header fields that store them (8/16-bit fields, multi-byte encodings)
    bool edge = r.chance(1, 12), edge_w = r.chance(1, 2);
    int big = (int)r.pick({255, 256, 257, 300, 511, 512, 1025}), small = (int)r.range(1, 3);
    if (edge) { w = edge_w ? big : small; h = edge_w ? small : big; }
    p.set("w", w); p.set("h", h); p.set("cseed", (long long)r.below(1u << 30));
    p.set("content", f->name == "jpeg" ? (int)r.pick({1, 3}) : (int)r.pick({0, 0, 0, 1, 2, 4, 4}));
    p.set("org", (int)r.pick({0, 0, 1, 1, 2, 3, 4}));
    if (r.chance(1, 3)) p.set("planar", 1);
    p.set("ox", (int)r.range(1, 9)); p.set("oy", (int)r.range(0, 3));
    p.set("align", r.pick({0, 0, 4, 8, 16}));
    p.set("wdev", gen_devspec(r, f, true));
    p.set("rdev", gen_devspec(r, f, false));
    Json opts = Json::array();
    for (auto const& o : f->write_options) if (r.chance(1, 3)) opts.push(o);
    p.set("opts", opts);
    p.set("ops", Json::array());
    return p;
}

// ------------------------------------------------------------------------------ C13 plans
static Json gen_c13(uint64_t seed, long i, std::vector<Format*> const& fmts)
{
    Rng r(mix(seed ^ 0xC13, (uint64_t)i));
    std::vector<Format*> pf;
    for (auto f : fmts) if (f->paths) pf.push_back(f);
    Json p = Json::object();
    if (pf.empty()) return p;
    Format* f = pf[r.below(pf.size())];
    Variant const& v = f->variants[r.below(f->variants.size())];
    p.set("engine", "iosim"); p.set("mode", "c13"); p.set("index", (long long)i);
    p.set("fmt", f->name); p.set("variant", v.name);
    int w = (int)(r.chance(3, 4) ? r.range(1, 8) : r.range(1, 20)), h = (int)(r.chance(3, 4) ? r.range(1, 6) : r.range(1, 20));
    if (f->name == "tiff" && r.chance(1, 4)) { w = (int)r.pick({15, 16, 17, 33}); h = (int)r.pick({2, 16, 17}); }
    p.set("w", w); p.set("h", h); p.set("cseed", (long long)r.below(1u << 30));
    Json ops = Json::array();
    int n = (int)r.range(3, 7);
    for (int k = 0; k < n; ++k)
    {
        Json o = gen_devspec(r, f, false);
        unsigned pk = (unsigned)r.below(100);
        if (pk < 30) { o.set("p", "sub"); o.set("x", (int)r.below(20)); o.set("y", (int)r.below(20)); o.set("w", (int)r.below(20)); o.set("h", (int)r.below(20)); if (r.chance(1, 3)) o.set("view", 1); }
        else if (pk < 42) o.set("p", "dev");
        else if (pk < 48) o.set("p", "info");
        else if (pk < 58) { o.set("p", "view"); if (r.chance(1, 2)) o.set("dorg", (int)r.range(1, 4)); if (r.chance(1, 2)) o.set("dscan", 1); }
        else if (pk < 66)
        {
            o.set("p", "small"); o.set("dw", (int)r.below(4)); o.set("dh", (int)r.below(4));
            if (r.chance(1, 2)) { o.set("region", 1); o.set("x", (int)r.below(20)); o.set("y", (int)r.below(20)); o.set("w", (int)r.below(20)); o.set("h", (int)r.below(20)); }
        }
        else if (pk < 76 && f->has_scanline) { o.set("p", "scan"); if (r.chance(1, 2)) o.set("skip", (int)r.below(65536)); }
        else if (pk < 84 && f->has_any) o.set("p", "any");
        else { o.set("p", r.chance(2, 3) ? "rci" : "rcv"); o.set("type", r.pick(f->convert_types)); }
        if (!o.has("p")) o.set("p", "dev");
        std::string pn = o.str("p");
        bool reg = r.chance(1, 2);
        int rx = (int)r.below(20), ry = (int)r.below(20), rw = (int)r.below(20), rh = (int)r.below(20);
        if (reg && (pn == "any" || pn == "rci" || pn == "rcv")) { o.set("region", 1); o.set("x", rx); o.set("y", ry); o.set("w", rw); o.set("h", rh); }
        ops.push(o);
    }
    p.set("ops", ops);
    return p;
}

// all truncation points of a list of base files: index -> (base, n)
struct TruncBase { Format* f; Variant v; int w, h; Bytes bytes; };
static std::vector<TruncBase> trunc_bases(uint64_t seed, std::vector<Format*> const& fmts, int per_variant)
{
    std::vector<TruncBase> out;
    Rng r(mix(seed, 0x7256));
    for (auto f : fmts)
        for (auto const& v : f->variants)
            for (int k = 0; k < per_variant; ++k)
            {
                // base k is larger than base k-1 in both directions, so that every variant is present with at least three
                // rows and with a width beyond the first padding / packing boundary (a single random size per variant made
                // the detection of size-dependent defects a matter of luck: found by the seeded-change regression)
                TruncBase tb{f, v, (int)r.range(1, 7) + 3 * k, (int)r.range(1, 4) + 2 * k, Bytes()};
                f->make(v.name, tb.w, tb.h, 1000 + (uint64_t)k, tb.bytes);
                if (tb.bytes.size() > 6000) continue;
                out.push_back(std::move(tb));
            }
    return out;
}
// a read region inside the w x h image of the valid base file, for a third of the plans of the entries that take one
static void maybe_region(Rng& r, Json& p, std::string const& e, int w, int h)
{
    bool take = r.chance(1, 3);
    int x = (int)r.below((unsigned)w), y = (int)r.below((unsigned)h);
    int sw = (int)r.range(1, w - x), sh = (int)r.range(1, h - y);
    if (!take || e == "info" || e == "scanline") return;
    Json sb = Json::array();
    sb.push(x); sb.push(y); sb.push(sw); sb.push(sh);
    p.set("sub", sb);
}
static Json gen_trunc(uint64_t seed, long i, std::vector<TruncBase> const& bases, bool all_combos)
{
    long rem = i;
    for (size_t b = 0; b < bases.size(); ++b)
    {
        TruncBase const& tb = bases[b];
        std::vector<std::string> entries = {"info", "read_image", "read_view", "rci", "rcv"};
        if (tb.f->has_scanline) entries.push_back("scanline");
        if (tb.f->has_any) entries.push_back("any");
        long combos = all_combos ? (long)(entries.size() * tb.f->devices.size()) : 1;
        long span = (long)tb.bytes.size() * combos;
        if (rem >= span) { rem -= span; continue; }
        long n = rem / combos, c = rem % combos;
        Rng r(mix(seed ^ 0x7C, (uint64_t)i));
        Json p = Json::object();
        p.set("engine", "iosim"); p.set("mode", "c11"); p.set("index", (long long)i); p.set("enum", "trunc");
        p.set("fmt", tb.f->name); p.set("variant", tb.v.name); p.set("w", tb.w); p.set("h", tb.h);
        p.set("cseed", (long long)(1000 + (b % 2 == 1 && false ? 1 : 0)));
        std::string e = all_combos ? entries[(size_t)c % entries.size()] : r.pick(entries);
        std::string dev = all_combos ? tb.f->devices[(size_t)c / entries.size()] : r.pick(tb.f->devices);
        p.set("entry", e);
        p.set("type", (e == "rci" || e == "rcv") ? tb.f->convert_types[r.below(tb.f->convert_types.size())] : tb.v.native);
        p.set("dev", dev);
        p.set("sched", r.pick({"full", "full", "one", "half"}));
        p.set("bufsz", r.pick({-1, 0, 7, 4096}));
        p.set("showmany", r.pick({0, 1, -1}));
        maybe_region(r, p, e, tb.w, tb.h);
        Json ops = Json::array(); Json o = Json::object(); o.set("f", "trunc"); o.set("n", (long long)n); ops.push(o);
        p.set("ops", ops);
        return p;
    }
    return Json();
}
// every header field x every boundary value x every entry point (device by hash, or all devices): index -> plan
static std::vector<std::string> entries_of(Format* f)
{
    std::vector<std::string> e = {"info", "read_image", "read_view", "rci", "rcv"};
    if (f->has_scanline) e.push_back("scanline");
    if (f->has_any) e.push_back("any");
    return e;
}
static constexpr long N_BOUNDARY = 15; // size of boundary_values()
static long fields_span(TruncBase const& tb, bool all_devs)
{
    // cached per base (the generator is called once per plan)
    static std::map<std::pair<TruncBase const*, bool>, long> cache;
    auto it = cache.find({&tb, all_devs});
    if (it != cache.end()) return it->second;
    auto flds = tb.f->fields ? tb.f->fields(tb.bytes) : std::vector<Field>();
    long span = (long)flds.size() * N_BOUNDARY * (long)entries_of(tb.f).size() * (all_devs ? (long)tb.f->devices.size() : 1);
    cache[{&tb, all_devs}] = span;
    return span;
}
static long fields_total(std::vector<TruncBase> const& bases, bool all_devs)
{
    long t = 0;
    for (auto const& tb : bases) t += fields_span(tb, all_devs);
    return t;
}
static Json gen_fields(uint64_t seed, long i, std::vector<TruncBase> const& bases, bool all_devs)
{
    long rem = i;
    for (size_t b = 0; b < bases.size(); ++b)
    {
        TruncBase const& tb = bases[b];
        long span = fields_span(tb, all_devs);
        if (rem >= span) { rem -= span; continue; }
        auto entries = entries_of(tb.f);
        long ndev = all_devs ? (long)tb.f->devices.size() : 1;
        long combo = rem % ((long)entries.size() * ndev); rem /= ((long)entries.size() * ndev);
        auto flds = tb.f->fields(tb.bytes);
        Rng r(mix(seed ^ 0xF1E1D, (uint64_t)i));
        for (auto const& fd : flds)
        {
            uint64_t cur = 0;
            for (int k = 0; k < fd.width && fd.off + (size_t)k < tb.bytes.size(); ++k)
                cur |= (uint64_t)tb.bytes[fd.off + (size_t)k] << (fd.be ? 8 * (fd.width - 1 - k) : 8 * k);
            if (rem >= N_BOUNDARY) { rem -= N_BOUNDARY; continue; }
            Json bv = boundary_values(fd.width, cur);
            Json p = Json::object();
            p.set("engine", "iosim"); p.set("mode", "c11"); p.set("index", (long long)i); p.set("enum", "fields");
            p.set("fmt", tb.f->name); p.set("variant", tb.v.name); p.set("w", tb.w); p.set("h", tb.h); p.set("cseed", 1000);
            std::string e = entries[(size_t)(combo % (long)entries.size())];
            std::string dev = all_devs ? tb.f->devices[(size_t)(combo / (long)entries.size())] : r.pick(tb.f->devices);
            p.set("entry", e);
            p.set("type", (e == "rci" || e == "rcv") ? tb.f->convert_types[r.below(tb.f->convert_types.size())] : tb.v.native);
            p.set("dev", dev);
            p.set("sched", r.pick({"full", "full", "one", "half"}));
            p.set("bufsz", r.pick({-1, 0, 7, 4096}));
            p.set("showmany", r.pick({0, 1, -1}));
            maybe_region(r, p, e, tb.w, tb.h);
            Json ops = Json::array(); Json o = Json::object();
            o.set("f", "set"); o.set("field", fd.name); o.set("off", (long long)fd.off); o.set("width", fd.width); o.set("be", fd.be ? 1 : 0);
            o.set("val", bv.a[(size_t)rem]);
            ops.push(o);
            if (tb.f->name == "png") { Json c = Json::object(); c.set("f", "pngcrc"); ops.push(c); }
            p.set("ops", ops);
            return p;
        }
        return Json();
    }
    return Json();
}

static long trunc_total(std::vector<TruncBase> const& bases, bool all_combos)
{
    long t = 0;
    for (auto const& tb : bases)
    {
        long entries = 5 + (tb.f->has_scanline ? 1 : 0) + (tb.f->has_any ? 1 : 0);
        t += (long)tb.bytes.size() * (all_combos ? entries * (long)tb.f->devices.size() : 1);
    }
    return t;
}

// ------------------------------------------------------------------------------- execution
static RunResult run_c11(Json const& plan)
{
    RunResult rr;
    Format* f = find_format(plan.str("fmt"));
    if (!f) { rr.o.cls = "skipped:format"; return rr; }
    Disk dk; disk() = &dk;
    Bytes bytes;
    io_ctx() = nullptr;
    f->make(plan.str("variant"), (int)plan.num("w", 1), (int)plan.num("h", 1), (uint64_t)plan.num("cseed"), bytes);
    apply_file_faults(bytes, plan.at("ops"), &rr.file_faults_fired);
    rr.file_size = bytes.size();
    ReadSpec s;
    s.entry = plan.str("entry", "read_image"); s.type = plan.str("type");
    s.dev = dev_from_json(plan);
    s.meta = plan.num("meta") != 0;
    s.skipmask = (unsigned)plan.num("skip");
    if (plan.has("sub") && plan.at("sub").a.size() == 4)
    {
        auto const& sb = plan.at("sub").a;
        s.sub_x = (long)sb[0].i; s.sub_y = (long)sb[1].i; s.sub_w = (long)sb[2].i; s.sub_h = (long)sb[3].i;
    }
    device_faults(s.dev, plan.at("ops"));
    long P_cap = (long)(g_new_cap);
    long decl = f->declared_pixels ? f->declared_pixels(bytes) : -1;
    long P_decl = decl < 0 ? P_cap : std::min(P_cap, decl);
    IoCtx ctx;
    ctx.budget_total = 4096 + 16 * ((long)bytes.size() + P_cap);
    // after the first EOF / error a reader may still do work proportional to what is left of the input (libtiff asks for the
    // file size by seeking to its end before it reads a byte, and then reads e.g. a 384 KiB colour map) and to the declared size
    ctx.budget_post_eof = 4096 + 8 * P_decl + 4 * (long)bytes.size();
    snprintf(ctx.where, sizeof ctx.where, "%s/%s/%s/%s", f->name.c_str(), plan.str("variant").c_str(), s.entry.c_str(), dev_name(s.dev.kind));
    rr.cfg = ctx.where;
    io_ctx() = &ctx;
    rr.o = f->read(s, bytes);
    io_ctx() = nullptr;
    for (auto const& ch : dk.chans) rr.high_water = std::max(rr.high_water, ch->high_water);
    rr.ctx = ctx;
    disk() = nullptr;
    return rr;
}

static RunResult run_plan(Json const& plan)
{
    std::string mode = plan.str("mode", "c11");
    if (mode == "c11") return run_c11(plan);
    RunResult rr;
    Format* f = find_format(plan.str("fmt"));
    if (!f) { rr.o.cls = "skipped:format"; return rr; }
    Disk dk; disk() = &dk;
    IoCtx ctx;
    snprintf(ctx.where, sizeof ctx.where, "%s/%s/%s", f->name.c_str(), plan.str("variant").c_str(), mode.c_str());
    rr.cfg = ctx.where;
    io_ctx() = &ctx;
    if (mode == "c12" && f->roundtrip) rr.o = f->roundtrip(plan);
    else if (mode == "c13" && f->paths) rr.o = f->paths(plan);
    else rr.o.cls = "skipped:mode";
    io_ctx() = nullptr;
    rr.ctx = ctx;
    disk() = nullptr;
    return rr;
}

static Json result_json(RunResult const& rr)
{
    Json j = Json::object();
    char b[32];
    j.set("cls", rr.o.cls); j.set("w", (long long)rr.o.w); j.set("h", (long long)rr.o.h);
    snprintf(b, sizeof b, "%016llx", (unsigned long long)rr.o.digest()); j.set("digest", b);
    snprintf(b, sizeof b, "%016llx", (unsigned long long)rr.ctx.trace.h); j.set("trace", b);
    j.set("cfg", rr.cfg);
    j.set("steps", (long long)rr.ctx.steps); j.set("reads", (long long)rr.ctx.reads); j.set("seeks", (long long)rr.ctx.seeks); j.set("writes", (long long)rr.ctx.writes);
    j.set("short_reads", (long long)rr.ctx.short_reads); j.set("eio", (long long)rr.ctx.eio_fired); j.set("seekfail", (long long)rr.ctx.seekfail_fired);
    j.set("eof_hits", (long long)rr.ctx.eof_hits); j.set("file_faults", (long long)rr.file_faults_fired);
    if (rr.ctx.preambles) j.set("pre", (long long)rr.ctx.preambles);
    j.set("fsize", (long long)rr.file_size); j.set("felt", rr.high_water > rr.file_size || rr.ctx.eof_hits > 0 ? 1 : 0);
    if (!rr.o.extra.empty()) j.set("extra", rr.o.extra);
    if (!rr.o.what.empty()) j.set("what", rr.o.what.substr(0, 120));
    if (rr.o.cls.compare(0, 10, "violation:") == 0)
    {
        Json v = Json::object();
        // site: format + mode (+ the path kind for C13); the file variant is part of the config, not of the site,
        // so that one defect seen through many variants is triaged once
        std::string site = rr.cfg.substr(0, rr.cfg.find('/')) + rr.cfg.substr(rr.cfg.rfind('/'));
        if (!rr.o.what.empty() && rr.o.what[0] == '[') site += ":" + rr.o.what.substr(0, rr.o.what.find(']') + 1);
        v.set("cls", rr.o.cls.substr(10)); v.set("site", site); v.set("detail", rr.o.what);
        j.set("violation", v);
    }
    return j;
}

} // namespace sim

using namespace sim;

static void usage()
{
    fprintf(stderr, "iosim --list | --gen I | --count | --replay FILE | --worker --range A:B   [--mode c11|trunc|truncall|fields|fieldsall|c12|c13] [--seed S] [--formats a,b]\n");
    exit(2);
}

int main(int argc, char** argv)
{
    disable_aslr_and_reexec(argv);
    install_segv_handler();
    silence_libtiff();
    g_new_poison = (unsigned char)SIM_POISON_BYTE;
    if (char const* e = getenv("SIM_NEW_POISON")) g_new_poison = (unsigned char)atoi(e); // diagnosis only
    std::string mode = "c11", act, replay, only;
    uint64_t seed = 1; long a = 0, b = 0, gen_i = 0;
    for (int i = 1; i < argc; ++i)
    {
        std::string s = argv[i];
        auto next = [&]() -> char const* { if (i + 1 >= argc) usage(); return argv[++i]; };
        if (s == "--list") act = "list";
        else if (s == "--gen") { act = "gen"; gen_i = atol(next()); }
        else if (s == "--count") act = "count";
        else if (s == "--replay") { act = "replay"; replay = next(); }
        else if (s == "--dump") { act = "dump"; replay = next(); }
        else if (s == "--worker") act = "worker";
        else if (s == "--range") { char const* r = next(); a = atol(r); char const* c = strchr(r, ':'); b = c ? atol(c + 1) : a + 1; }
        else if (s == "--mode") mode = next();
        else if (s == "--seed") seed = strtoull(next(), nullptr, 10);
        else if (s == "--formats") only = next();
        else usage();
    }
    auto fmts = sorted_formats();
    if (!only.empty())
    {
        std::vector<Format*> sel;
        for (auto f : fmts) if ((("," + only + ",").find("," + f->name + ",")) != std::string::npos) sel.push_back(f);
        fmts = sel;
    }
    if (act == "list")
    {
        for (auto f : fmts) { printf("%s:", f->name.c_str()); for (auto const& v : f->variants) printf(" %s", v.name.c_str()); printf("\n"); }
        return 0;
    }
    Disk gen_disk; // generation of base files needs a disk for the pristine channels
    std::vector<TruncBase> bases;
    bool trunc_mode = mode == "trunc" || mode == "truncall";
    bool fields_mode = mode == "fields" || mode == "fieldsall";
    if (trunc_mode || fields_mode) { disk() = &gen_disk; bases = trunc_bases(seed, fmts, (mode == "truncall" || mode == "fieldsall") ? 3 : 2); disk() = nullptr; }
    auto make_plan = [&](long i) -> Json {
        disk() = &gen_disk;
        Json p;
        if (trunc_mode) p = gen_trunc(seed, i, bases, mode == "truncall");
        else if (fields_mode) p = gen_fields(seed, i, bases, mode == "fieldsall");
        else if (mode == "c11") p = gen_c11(seed, i, fmts);
        else if (mode == "c12") p = gen_c12(seed, i, fmts);
        else if (mode == "c13") p = gen_c13(seed, i, fmts);
        disk() = nullptr;
        gen_disk.chans.clear();
        return p;
    };
    if (act == "count") { printf("%ld\n", trunc_mode ? trunc_total(bases, mode == "truncall") : fields_mode ? fields_total(bases, mode == "fieldsall") : -1L); return 0; }
    if (act == "gen") { printf("%s\n", make_plan(gen_i).dump().c_str()); return 0; }
    if (act == "dump")
    {
        // diagnosis: write the (faulted) file of a plan to stdout as hex
        Json p = Json::parse_file(replay.c_str());
        Format* f = find_format(p.str("fmt"));
        Disk dk; disk() = &dk;
        Bytes bytes; long fired = 0;
        f->make(p.str("variant"), (int)p.num("w", 1), (int)p.num("h", 1), (uint64_t)p.num("cseed"), bytes);
        size_t before = bytes.size();
        apply_file_faults(bytes, p.at("ops"), &fired);
        printf("size_before=%zu size_after=%zu\n", before, bytes.size());
        for (size_t i = 0; i < bytes.size(); ++i) printf("%02x%s", bytes[i], (i % 32 == 31) ? "\n" : " ");
        printf("\n");
        return 0;
    }
    if (act == "replay")
    {
        Json p = Json::parse_file(replay.c_str());
        RunResult rr = run_plan(p);
        Json j = result_json(rr);
        printf("%s\n", j.dump().c_str());
        return j.has("violation") ? 10 : 0;
    }
    if (act == "worker")
    {
        for (long i = a; i < b; ++i)
        {
            Json p = make_plan(i);
            if (p.is_null()) break;
            printf("B %ld 0\n", i); fflush(stdout);
            RunResult rr = run_plan(p);
            Json j = result_json(rr);
            j.set("i", (long long)i);
            j.set("fmt", p.str("fmt")); j.set("variant", p.str("variant")); j.set("entry", p.str("entry")); j.set("dev", p.str("dev")); j.set("type", p.str("type"));
            Json kinds = Json::array();
            for (auto const& o : p.at("ops").a) kinds.push(o.str("f"));
            j.set("faults", kinds);
            if (j.has("violation")) j.set("plan", p);
            printf("R %s\n", j.dump().c_str()); fflush(stdout);
        }
        return 0;
    }
    usage();
    return 2;
}
