// C12 (write -> power cut -> read back) and C13 (all read paths agree) on top of iosim.hpp
#pragma once
#include "iosim.hpp"
#include <boost/gil/premultiply.hpp>
#include <cmath>

namespace sim {

// largest channel error of gil-written quality-100 JPEGs of the smooth synthetic content (fill mode 3): measured maximum over
// 20 000 round trips of gray8/rgb8/cmyk8, all sizes 1..40, is 8 (4:2:0 chroma subsampling of slopes <= 3 levels/pixel); bound = 2x
constexpr int JPEG_SMOOTH_BOUND = 16;

// ------------------------------------------------------------------------------ write devices
template <class F> void tiff_write_case(DevSpec const& d, Bytes& sink, F&& f, std::true_type)
{
    Channel* ch = disk()->open_bytes(&sink, true, d.sch);
    TIFF* t = open_tiff_client(ch, "w");
    if (!t) throw std::ios_base::failure("TIFFClientOpen failed");
    f(t);
}
template <class F> void tiff_write_case(DevSpec const&, Bytes&, F&&, std::false_type) {}
// Earlier output of the caller in the destination (a FILE* or ostream that is not at position 0): `pre` bytes of a fixed
// pattern; after write_view they must be unchanged, and the image is what follows them.
inline unsigned char preamble_byte(int i) { return (unsigned char)(0xA0 + (i * 7) % 61); }
inline bool& preamble_damaged() { static bool b = false; return b; }
inline void strip_preamble(Bytes& sink, int pre)
{
    preamble_damaged() = false;
    if (pre <= 0) return;
    if (io_ctx()) ++io_ctx()->preambles;
    if ((int)sink.size() < pre) { preamble_damaged() = true; return; }
    for (int i = 0; i < pre; ++i) if (sink[(size_t)i] != preamble_byte(i)) preamble_damaged() = true;
    sink.erase(sink.begin(), sink.begin() + pre);
}

template <class F> void stdio_write_case(DevSpec const& d, Bytes& sink, F&& f, std::true_type)
{
    Channel* ch = disk()->open_bytes(&sink, true, d.sch);
    FILE* fp = open_cookie(ch, "wb", d.bufsz);
    if (!fp) throw std::runtime_error("fopencookie failed");
    for (int i = 0; i < d.preamble; ++i) fputc(preamble_byte(i), fp);
    f(fp); // gil closes
    strip_preamble(sink, d.preamble);
}
template <class F> void stdio_write_case(DevSpec const&, Bytes&, F&&, std::false_type) {}

// After f returns the harness does only what a user must (flush an ostream it owns); everything still sitting in a
// stdio or streambuf buffer at that point is lost (power cut): only bytes that reached Channel::write are in `sink`.
template <class Tag, class F> void with_write_device(DevSpec const& d, Bytes& sink, char const* ext, F&& f)
{
    sink.clear();
    preamble_damaged() = false;
    switch (d.kind)
    {
    case DEV_FILE:
        stdio_write_case(d, sink, f, std::integral_constant<bool, !std::is_same<Tag, gil::tiff_tag>::value>());
        break;
    case DEV_ISTREAM: // = ostream on the write side
    {
        Channel* ch = disk()->open_bytes(&sink, true, d.sch);
        Streambuf sb(ch, d.bufsz <= 0 ? (d.bufsz == 0 ? 1 : 4096) : (size_t)d.bufsz, 0);
        std::ostream os(&sb);
        for (int i = 0; i < d.preamble; ++i) os.put((char)preamble_byte(i));
        f(os);
        os.flush();
        strip_preamble(sink, d.preamble);
        break;
    }
    case DEV_NAME:
    {
        std::string name = std::string("sim:out.") + ext;
        disk()->files.erase(name);
        disk()->stdio_bufsz = d.bufsz;
        f(name);
        sink = disk()->files[name];
        break;
    }
    case DEV_TIFFH:
        tiff_write_case(d, sink, f, std::is_same<Tag, gil::tiff_tag>());
        break;
    }
}

// ------------------------------------------------------------------------------ comparison
template <class V1, class V2> bool views_equal(V1 const& a, V2 const& b, std::string& why)
{
    if (a.width() != b.width() || a.height() != b.height())
    {
        why = "dims " + std::to_string(a.width()) + "x" + std::to_string(a.height()) + " vs " + std::to_string(b.width()) + "x" + std::to_string(b.height());
        return false;
    }
    using value_t = typename V1::value_type;
    for (std::ptrdiff_t y = 0; y < a.height(); ++y)
        for (std::ptrdiff_t x = 0; x < a.width(); ++x)
        {
            value_t p(a(x, y)), q(b(x, y));
            if (!(p == q))
            {
                Hash h1, h2;
                why = "pixel (" + std::to_string(x) + "," + std::to_string(y) + ") differs";
                return false;
            }
        }
    return true;
}

struct MaxDiff
{
    double* m;
    template <class A, class B> void operator()(A const& a, B const& b) const { double d = std::fabs((double)a - (double)b); if (d > *m) *m = d; }
};
template <class V1, class V2> double max_channel_diff(V1 const& a, V2 const& b)
{
    double m = 0;
    using value_t = typename V1::value_type;
    for (std::ptrdiff_t y = 0; y < a.height(); ++y)
        for (std::ptrdiff_t x = 0; x < a.width(); ++x)
        {
            value_t p(a(x, y)), q(b(x, y));
            gil::static_for_each(p, q, MaxDiff{&m});
        }
    return m;
}

// does `got` equal the alpha-premultiplied source? (tiff writer known finding classification)
template <class V1, class V2> bool equals_premultiplied(V1 const& src, V2 const& got, std::true_type)
{
    using value_t = typename V1::value_type;
    if (src.dimensions() != got.dimensions()) return false;
    for (std::ptrdiff_t y = 0; y < src.height(); ++y)
        for (std::ptrdiff_t x = 0; x < src.width(); ++x)
        {
            value_t s(src(x, y)), e, g(got(x, y));
            gil::premultiply()(s, e);
            if (!(e == g)) return false;
        }
    return true;
}
template <class V1, class V2> bool equals_premultiplied(V1 const&, V2 const&, std::false_type) { return false; }

// every pixel equals the source pixel or its premultiplied form (tiled tiff: full tiles are premultiplied, edge tiles are not)
template <class V1, class V2> bool equals_partly_premultiplied(V1 const& src, V2 const& got, std::true_type)
{
    using value_t = typename V1::value_type;
    if (src.dimensions() != got.dimensions()) return false;
    for (std::ptrdiff_t y = 0; y < src.height(); ++y)
        for (std::ptrdiff_t x = 0; x < src.width(); ++x)
        {
            value_t s(src(x, y)), e, g(got(x, y));
            gil::premultiply()(s, e);
            if (!(e == g) && !(s == g)) return false;
        }
    return true;
}
template <class V1, class V2> bool equals_partly_premultiplied(V1 const&, V2 const&, std::false_type) { return false; }

template <class Pixel> struct has_alpha_channel : boost::mp11::mp_contains<typename gil::color_space_type<Pixel>::type, gil::alpha_t> {};

// ------------------------------------------------------------------------------ C12
// Img: pixel type under test; Planar: also offer the planar organisation (homogeneous byte/short pixels only)
// OrgMask: bit k set = view organisation k (see with_org) is offered to the writer for this pixel type
template <class Tag, class Img, bool Planar, bool Lossy = false, unsigned OrgMask = 0x1Fu>
struct RoundTrip
{
    using value_t = typename Img::value_type;
    using PImg = gil::image<value_t, true>;
    using info_t = gil::image_write_info<Tag>;

    template <class V> static Outcome go(V const& src, Json const& plan, char const* ext, info_t const& info)
    {
        Outcome o;
        Bytes sink;
        DevSpec wd = dev_from_json(plan.at("wdev"));
        DevSpec rd = dev_from_json(plan.at("rdev"));
        Img back;
        bool reading = false;
        guarded(o, [&] {
            with_write_device<Tag>(wd, sink, ext, [&](auto& dev) { gil::write_view(dev, src, info); });
            if (preamble_damaged()) throw std::runtime_error("earlier output in the destination was overwritten or lost");
            reading = true;
            with_read_device<Tag>(rd, sink, ext, [&](auto& dev) { gil::read_image(dev, back, Tag()); });
        });
        // a device that cannot seek may be refused by a reader or writer that has to seek (exception); what it must not do
        // is come back with other pixels
        bool fmt_seeks = std::string(ext) == "bmp" || std::string(ext) == "tga"; // readers that position the device per row
        if (o.cls != "ok" && reading && !rd.sch.seekable && fmt_seeks)
        {
            o.what = "refused on a device that cannot seek: " + o.what;
            o.cls = "skipped:refused-noseek";
            return o;
        }
        if (o.cls != "ok")
        {
            o.what = "exception " + o.cls + ": " + o.what;
            o.cls = "violation:roundtrip:exception";
            return o;
        }
        o.w = (long)back.width(); o.h = (long)back.height(); o.pix = view_digest(gil::const_view(back));
        o.extra = "bytes=" + std::to_string(sink.size());
        std::string why;
        if (!Lossy)
        {
            if (!views_equal(src, gil::const_view(back), why))
            {
                if (equals_premultiplied(src, gil::const_view(back), typename has_alpha_channel<value_t>::type()))
                { o.cls = "violation:roundtrip:premultiplied-alpha"; o.what = "read-back equals premultiply(source): " + why; }
                else if (equals_partly_premultiplied(src, gil::const_view(back), typename has_alpha_channel<value_t>::type()))
                { o.cls = "violation:roundtrip:partly-premultiplied-alpha"; o.what = "every read-back pixel equals the source pixel or premultiply(source pixel): " + why; }
                else { o.cls = "violation:roundtrip:pixel-mismatch"; o.what = why; }
            }
        }
        else
        {
            if (src.dimensions() != back.dimensions()) { o.cls = "violation:roundtrip:dims"; o.what = "dimensions differ"; return o; }
            double d = max_channel_diff(src, gil::const_view(back));
            long mode = plan.num("content");
            // constant images: within one level (statement); smooth synthetic images (mode 3) at quality 100: bound fixed
            // from libjpeg's behaviour, see DESIGN.md 4.4
            double bound = mode == 1 ? 1.0 : (double)JPEG_SMOOTH_BOUND;
            o.extra += " maxdiff=" + std::to_string((int)d);
            if (d > bound) { o.cls = "violation:roundtrip:lossy-bound"; o.what = "max channel difference " + std::to_string(d) + " > " + std::to_string(bound); }
        }
        return o;
    }

    template <unsigned K> using org_on = std::integral_constant<bool, ((OrgMask >> K) & 1u) != 0>;

    template <class I> static Outcome org0(Json const& plan, char const* ext, info_t const& info)
    {
        int w = (int)plan.num("w", 1), h = (int)plan.num("h", 1);
        I img(w, h, (std::size_t)plan.num("align", 0));
        fill_pattern(gil::view(img), (uint64_t)plan.num("cseed"), (int)plan.num("content"));
        return go(gil::view(img), plan, ext, info);
    }
    // 1: sub-view of a larger image (for bit-aligned types the rows then start at a bit offset)
    template <class I> static Outcome org1(Json const& plan, char const* ext, info_t const& info, std::true_type)
    {
        int w = (int)plan.num("w", 1), h = (int)plan.num("h", 1);
        uint64_t cs = (uint64_t)plan.num("cseed");
        int ox = (int)plan.num("ox", 1), oy = (int)plan.num("oy", 1);
        I big(w + ox + 2, h + oy + 1);
        fill_pattern(gil::view(big), cs ^ 0x55, 0);
        auto sv = gil::subimage_view(gil::view(big), ox, oy, w, h);
        fill_pattern(sv, cs, (int)plan.num("content"));
        return go(sv, plan, ext, info);
    }
    // 2: vertically flipped (y-step) view
    template <class I> static Outcome org2(Json const& plan, char const* ext, info_t const& info, std::true_type)
    {
        I img((int)plan.num("w", 1), (int)plan.num("h", 1));
        auto v = gil::flipped_up_down_view(gil::view(img));
        fill_pattern(v, (uint64_t)plan.num("cseed"), (int)plan.num("content"));
        return go(v, plan, ext, info);
    }
    // 3: x/y subsampled step view of a larger image
    template <class I> static Outcome org3(Json const& plan, char const* ext, info_t const& info, std::true_type)
    {
        uint64_t cs = (uint64_t)plan.num("cseed");
        I big(2 * (int)plan.num("w", 1), 2 * (int)plan.num("h", 1));
        fill_pattern(gil::view(big), cs ^ 0x77, 0);
        auto v = gil::subsampled_view(gil::view(big), 2, 2);
        fill_pattern(v, cs, (int)plan.num("content"));
        return go(v, plan, ext, info);
    }
    // 4: horizontally flipped (x-step) view
    template <class I> static Outcome org4(Json const& plan, char const* ext, info_t const& info, std::true_type)
    {
        I img((int)plan.num("w", 1), (int)plan.num("h", 1));
        auto v = gil::flipped_left_right_view(gil::view(img));
        fill_pattern(v, (uint64_t)plan.num("cseed"), (int)plan.num("content"));
        return go(v, plan, ext, info);
    }
    template <class I> static Outcome org1(Json const& p, char const* e, info_t const& i, std::false_type) { return org0<I>(p, e, i); }
    template <class I> static Outcome org2(Json const& p, char const* e, info_t const& i, std::false_type) { return org0<I>(p, e, i); }
    template <class I> static Outcome org3(Json const& p, char const* e, info_t const& i, std::false_type) { return org0<I>(p, e, i); }
    template <class I> static Outcome org4(Json const& p, char const* e, info_t const& i, std::false_type) { return org0<I>(p, e, i); }

    template <class I> static Outcome with_org(Json const& plan, char const* ext, info_t const& info)
    {
        switch ((int)plan.num("org"))
        {
        case 1: return org1<I>(plan, ext, info, org_on<1>());
        case 2: return org2<I>(plan, ext, info, org_on<2>());
        case 3: return org3<I>(plan, ext, info, org_on<3>());
        case 4: return org4<I>(plan, ext, info, org_on<4>());
        default: return org0<I>(plan, ext, info);
        }
    }

    static Outcome run(Json const& plan, char const* ext, info_t const& info)
    {
        return run2(plan, ext, info, std::integral_constant<bool, Planar>());
    }
    static Outcome run2(Json const& plan, char const* ext, info_t const& info, std::true_type)
    {
        if (plan.num("planar")) return with_org<PImg>(plan, ext, info);
        return with_org<Img>(plan, ext, info);
    }
    static Outcome run2(Json const& plan, char const* ext, info_t const& info, std::false_type) { return with_org<Img>(plan, ext, info); }
};

// ------------------------------------------------------------------------------ C13
struct PathsCfg
{
    bool scan_refused = false;   // scanline reader documents a refusal for this variant
    bool any_ok = true;          // native type is one of the any_image alternatives
    bool subrect_ok = true;
    bool convert_refused = false; // converting reads document a refusal for this variant
    // devices that cannot seek: readers that position the device for every row (BMP: get_offset + seek, TARGA: seek to the
    // row) cannot work on them and refuse with "seek error"; readers that are strictly sequential (PNM, PNG, JPEG) must
    // work; the PNM scanline reader seeks only when rows are stepped over (skip_binary_row)
    bool seeks = false;
    bool scan_skip_seeks = false;
    bool scan_type_readable = false; // read_view also accepts the file's own pixel layout (the Scan type), e.g. bgr8 for TARGA
    bool stepped_view_refused = false; // reader accepts exactly one view type (tiff palette: "User supplied image type must be rgb16_image_t.")
};

// Scan: pixel layout of the rows handed out by the scanline reader (the file's own layout, e.g. bgr8 for a 24 bit BMP)
template <class Tag, class Native, class Any, class Scan = Native>
struct Paths
{
    using R = Reader<Tag>;
    using settings_t = gil::image_read_settings<Tag>;
    using value_t = typename Native::value_type;

    static Outcome fail(char const* kind, std::string what)
    {
        Outcome o; o.cls = std::string("violation:paths:") + kind; o.what = std::move(what); return o;
    }

    // the clauses compose: converting reads and any_image reads are also made through image_read_settings(top_left, dim)
    // and must then equal the same crop of the canonical read (set by one() for the ops any / rci / rcv)
    struct Rect { bool on = false; long x = 0, y = 0, w = 0, h = 0; std::string text() const { return on ? " region (" + std::to_string(x) + "," + std::to_string(y) + " " + std::to_string(w) + "x" + std::to_string(h) + ")" : std::string(); } };
    static Rect& cur_rect() { static Rect r; return r; }
    static settings_t rect_settings()
    {
        Rect const& r = cur_rect();
        return r.on ? settings_t(gil::point_t(r.x, r.y), gil::point_t(r.w, r.h)) : settings_t();
    }

    template <class P> static Outcome check_convert(Native const& ref, Bytes& bytes, char const* ext, DevSpec const& d, bool as_view)
    {
        using CImg = gil::image<P, false>;
        Rect const rg = cur_rect();
        auto src = rg.on ? gil::subimage_view(gil::const_view(ref), (int)rg.x, (int)rg.y, (int)rg.w, (int)rg.h) : gil::const_view(ref);
        CImg expect(src.dimensions());
        gil::copy_and_convert_pixels(src, gil::view(expect));
        CImg got;
        Outcome o;
        settings_t st = rect_settings();
        guarded(o, [&] {
            if (as_view)
            {
                got.recreate(src.dimensions());
                with_read_device<Tag>(d, bytes, ext, [&](auto& dev) { gil::read_and_convert_view(dev, gil::view(got), st); });
            }
            else
                with_read_device<Tag>(d, bytes, ext, [&](auto& dev) { gil::read_and_convert_image(dev, got, st); });
        });
        if (o.cls != "ok") return fail("unexpected-exception", std::string(as_view ? "read_and_convert_view" : "read_and_convert_image") + rg.text() + ": " + o.cls + " " + o.what);
        std::string why;
        if (!views_equal(gil::const_view(expect), gil::const_view(got), why)) return fail("convert-mismatch", std::string(as_view ? "read_and_convert_view" : "read_and_convert_image") + rg.text() + " != color_convert(native read): " + why);
        Outcome ok; ok.cls = "ok"; return ok;
    }

    // Destination views that are not plain: an x step that is not one pixel (mirrored, every second column of a wider image)
    // or rows in reverse order, always inside a larger image whose other pixels must stay untouched. Only for interleaved
    // byte-aligned native types (gil's readers are not required to compile for step views of bit-aligned pixels).
    static Outcome view_stepped(Json const&, Native const&, Bytes&, char const*, DevSpec const&, std::false_type) { Outcome o; o.cls = "skipped"; return o; }
    static Outcome view_stepped(Json const& op, Native const& ref, Bytes& bytes, char const* ext, DevSpec const& d, std::true_type)
    {
        return view_stepped_as<Native>(op, ref, bytes, ext, d);
    }
    // Dst: Native, or the file's own pixel layout (Scan, e.g. bgr8 for a 24 bit TARGA) where the reader accepts it
    template <class Dst> static Outcome view_stepped_as(Json const& op, Native const& ref, Bytes& bytes, char const* ext, DevSpec const& d)
    {
        long W = (long)ref.width(), H = (long)ref.height();
        int org = (int)(op.num("dorg") % 4);
        Dst big(org == 2 ? 2 * W + 3 : W + 2, H + 2);
        fill_const(gil::view(big), 0x5A);
        Dst border_ref(big);
        Outcome o; std::string why;
        auto inner = gil::subimage_view(gil::view(big), 1, 1, (int)(org == 2 ? 2 * W : W), (int)H);
        auto sinner = gil::subsampled_view(inner, 1, 1); // same pixels, view type with a run-time x step: closed under the four below
        using step_t = decltype(sinner);
        step_t dst = org == 1 ? step_t(gil::flipped_left_right_view(sinner))
                   : org == 2 ? step_t(gil::subsampled_view(sinner, 2, 1))
                   : org == 3 ? step_t(gil::rotated180_view(sinner))
                   : step_t(gil::flipped_up_down_view(sinner));
        guarded(o, [&] { with_read_device<Tag>(d, bytes, ext, [&](auto& dev) { gil::read_view(dev, dst, Tag()); }); });
        char const* names[] = {"flipped_up_down", "flipped_left_right", "subsampled(2,1)", "rotated180"};
        if (o.cls != "ok") return fail("unexpected-exception", std::string("read_view into a ") + names[org] + " view: " + o.cls + " " + o.what);
        Native conv(W, H);
        gil::copy_and_convert_pixels(dst, gil::view(conv)); // identity for Dst == Native; pairs the channels by colour otherwise
        if (!views_equal(gil::const_view(ref), gil::const_view(conv), why)) return fail("view-mismatch", std::string("read_view into a ") + names[org] + " view != read_image: " + why);
        // put back what the destination had before; everything else must be unchanged
        step_t binner = gil::subsampled_view(gil::subimage_view(gil::view(border_ref), 1, 1, (int)(org == 2 ? 2 * W : W), (int)H), 1, 1);
        step_t bdst = org == 1 ? step_t(gil::flipped_left_right_view(binner))
                    : org == 2 ? step_t(gil::subsampled_view(binner, 2, 1))
                    : org == 3 ? step_t(gil::rotated180_view(binner))
                    : step_t(gil::flipped_up_down_view(binner));
        gil::copy_pixels(bdst, dst);
        if (!views_equal(gil::const_view(border_ref), gil::const_view(big), why)) return fail("wrote-outside-view", std::string("read_view into a ") + names[org] + " view changed pixels outside the destination view: " + why);
        Outcome ok; ok.cls = "ok"; return ok;
    }

    static Outcome view_stepped_scan(Json const& op, Native const& ref, Bytes& bytes, char const* ext, DevSpec const& d, std::true_type) { return view_stepped_as<Scan>(op, ref, bytes, ext, d); }
    static Outcome view_stepped_scan(Json const& op, Native const& ref, Bytes& bytes, char const* ext, DevSpec const& d, std::false_type)
    {
        return view_stepped(op, ref, bytes, ext, d, std::integral_constant<bool, std::is_pointer<typename Native::view_t::x_iterator>::value>());
    }

    // A device that cannot seek (pipe-like FILE*, forward-only streambuf) is still a FILE* / std::istream: a reader that needs
    // to seek may refuse with an exception, but when it returns normally the pixels must be the same as by file name.
    template <class ConvertFn> static Outcome one(Json const& op, Native const& ref, Bytes& bytes, char const* ext, PathsCfg const& cfg, ConvertFn&& convert)
    {
        Outcome r = one_impl(op, ref, bytes, ext, cfg, convert);
        bool may_refuse = cfg.seeks || (cfg.scan_skip_seeks && op.str("p") == "scan" && op.num("skip") != 0);
        if (op.num("noseek") != 0 && may_refuse && r.cls == "violation:paths:unexpected-exception") { r.cls = "skipped:refused-noseek"; }
        return r;
    }
    // one path op; returns ok / skipped / violation
    template <class ConvertFn> static Outcome one_impl(Json const& op, Native const& ref, Bytes& bytes, char const* ext, PathsCfg const& cfg, ConvertFn&& convert)
    {
        std::string p = op.str("p");
        DevSpec d = dev_from_json(op);
        Outcome ok; ok.cls = "ok";
        std::string why;
        long W = (long)ref.width(), H = (long)ref.height();
        cur_rect() = Rect();
        if ((p == "any" || p == "rci" || p == "rcv") && op.num("region") != 0 && cfg.subrect_ok && W > 0 && H > 0)
        {
            Rect& r = cur_rect();
            r.on = true; r.x = op.num("x") % W; r.y = op.num("y") % H;
            r.w = 1 + op.num("w") % (W - r.x); r.h = 1 + op.num("h") % (H - r.y);
        }
        if (p == "dev")
        {
            Native got; Outcome o;
            guarded(o, [&] { with_read_device<Tag>(d, bytes, ext, [&](auto& dev) { gil::read_image(dev, got, Tag()); }); });
            if (o.cls != "ok") return fail("unexpected-exception", std::string("read_image via ") + dev_name(d.kind) + ": " + o.cls + " " + o.what);
            if (!views_equal(gil::const_view(ref), gil::const_view(got), why)) return fail("device-mismatch", std::string("read_image via ") + dev_name(d.kind) + " differs from canonical read: " + why);
            return ok;
        }
        if (p == "info")
        {
            long w = -1, h = -1; Outcome o;
            guarded(o, [&] { with_read_device<Tag>(d, bytes, ext, [&](auto& dev) { auto be = gil::read_image_info(dev, Tag()); w = (long)be._info._width; h = (long)be._info._height; }); });
            if (o.cls != "ok") return fail("unexpected-exception", "read_image_info: " + o.cls + " " + o.what);
            if (w != W || h != H) return fail("info-mismatch", "read_image_info reports " + std::to_string(w) + "x" + std::to_string(h) + ", read_image gives " + std::to_string(W) + "x" + std::to_string(H));
            return ok;
        }
        if (p == "sub")
        {
            if (!cfg.subrect_ok || W <= 0 || H <= 0) { ok.cls = "skipped"; return ok; }
            long x = op.num("x") % W, y = op.num("y") % H;
            long w = 1 + op.num("w") % (W - x), h = 1 + op.num("h") % (H - y);
            settings_t st(gil::point_t(x, y), gil::point_t(w, h));
            Native got; Outcome o;
            bool as_view = op.num("view") != 0;
            guarded(o, [&] {
                if (as_view) { got.recreate(w, h); with_read_device<Tag>(d, bytes, ext, [&](auto& dev) { gil::read_view(dev, gil::view(got), st); }); }
                else with_read_device<Tag>(d, bytes, ext, [&](auto& dev) { gil::read_image(dev, got, st); });
            });
            std::string rect = "(" + std::to_string(x) + "," + std::to_string(y) + " " + std::to_string(w) + "x" + std::to_string(h) + " of " + std::to_string(W) + "x" + std::to_string(H) + ")";
            if (o.cls != "ok") return fail("unexpected-exception", "sub-rectangle read " + rect + ": " + o.cls + " " + o.what);
            auto crop = gil::subimage_view(gil::const_view(ref), (int)x, (int)y, (int)w, (int)h);
            if (!views_equal(crop, gil::const_view(got), why)) return fail("subrect-mismatch", "sub-rectangle " + rect + " != crop of full read: " + why);
            return ok;
        }
        if (p == "view" && op.num("dorg") != 0)
        {
            if (cfg.stepped_view_refused) { ok.cls = "skipped:refused"; return ok; }
            if (cfg.scan_type_readable && op.num("dscan") != 0)
                return view_stepped_scan(op, ref, bytes, ext, d, std::integral_constant<bool, std::is_pointer<typename Scan::view_t::x_iterator>::value && !std::is_same<Scan, Native>::value>());
            return view_stepped(op, ref, bytes, ext, d, std::integral_constant<bool, std::is_pointer<typename Native::view_t::x_iterator>::value>());
        }
        if (p == "view")
        {
            // exact-size destination inside a larger image whose border must stay untouched
            Native big(W + 2, H + 2);
            fill_const(gil::view(big), 0x5A);
            Native border_ref(big);
            Outcome o;
            auto dst = gil::subimage_view(gil::view(big), 1, 1, (int)W, (int)H);
            guarded(o, [&] { with_read_device<Tag>(d, bytes, ext, [&](auto& dev) { gil::read_view(dev, dst, Tag()); }); });
            if (o.cls != "ok") return fail("unexpected-exception", "read_view: " + o.cls + " " + o.what);
            if (!views_equal(gil::const_view(ref), dst, why)) return fail("view-mismatch", "read_view != read_image: " + why);
            gil::copy_pixels(gil::subimage_view(gil::const_view(border_ref), 1, 1, (int)W, (int)H), dst);
            if (!views_equal(gil::const_view(border_ref), gil::const_view(big), why)) return fail("wrote-outside-view", "read_view changed pixels outside the destination view: " + why);
            return ok;
        }
        if (p == "small")
        {
            // region to read: the whole image, or a sub-rectangle given through image_read_settings
            long rx = 0, ry = 0, rw = W, rh = H;
            bool region = op.num("region") != 0 && cfg.subrect_ok && W > 0 && H > 0;
            if (region) { rx = op.num("x") % W; ry = op.num("y") % H; rw = 1 + op.num("w") % (W - rx); rh = 1 + op.num("h") % (H - ry); }
            long dw = op.num("dw") % (rw + 1), dh = op.num("dh") % (rh + 1);
            if (dw == 0 && dh == 0) dw = 1;
            long w = rw - dw, h = rh - dh;
            if (w <= 0 || h <= 0) { ok.cls = "skipped"; return ok; }
            Native big(W + 2, H + 2);
            fill_const(gil::view(big), 0x5A);
            Native before(big);
            auto dst = gil::subimage_view(gil::view(big), 1, 1, (int)w, (int)h);
            settings_t st;
            if (region) st = settings_t(gil::point_t(rx, ry), gil::point_t(rw, rh));
            Outcome o;
            guarded(o, [&] { with_read_device<Tag>(d, bytes, ext, [&](auto& dev) { gil::read_view(dev, dst, st); }); });
            std::string what = std::string("read_view") + " into a " + std::to_string(w) + "x" + std::to_string(h) + " view of the " +
                               std::to_string(rw) + "x" + std::to_string(rh) + " region at (" + std::to_string(rx) + "," + std::to_string(ry) + ") of a " + std::to_string(W) + "x" + std::to_string(H) + " image";
            if (o.cls == "ok") return fail("small-view-accepted", what + " returned normally");
            // whatever was written must lie inside dst
            gil::copy_pixels(gil::subimage_view(gil::const_view(before), 1, 1, (int)w, (int)h), dst);
            if (!views_equal(gil::const_view(before), gil::const_view(big), why)) return fail("wrote-outside-view", "rejected " + what + " changed pixels outside the destination view: " + why);
            return ok;
        }
        if (p == "scan")
        {
            Scan raw;
            Outcome o;
            unsigned skipmask = (unsigned)op.num("skip");
            guarded(o, [&] {
                with_read_device<Tag>(d, bytes, ext, [&](auto& dev) {
                    using dev_t = typename std::remove_reference<decltype(dev)>::type;
                    using device_t = typename gil::get_read_device<dev_t, Tag>::type;
                    using reader_t = gil::scanline_reader<device_t, Tag>;
                    reader_t reader = gil::make_scanline_reader(dev, Tag());
                    long w = (long)reader._info._width, h = (long)reader._info._height;
                    if (w != W || h != H) { o.cls = "dims"; o.what = std::to_string(w) + "x" + std::to_string(h); return; }
                    raw.recreate(w, h);
                    using xit_t = typename Scan::view_t::x_iterator;
                    long unit_bits = (long)gil::memunit_step(xit_t()) * (8 / (long)gil::byte_to_memunit<xit_t>::value);
                    if ((long)reader._scanline_length * 8 < w * unit_bits) { o.cls = "short"; o.what = "scanline_length " + std::to_string(reader._scanline_length) + " too small for " + std::to_string(w) + " pixels"; return; }
                    auto it = reader.begin(); auto end = reader.end();
                    long row = 0;
                    for (; it != end && row < h; ++it, ++row)
                    {
                        if ((skipmask >> (row % 16)) & 1u) continue; // stepped over without dereferencing: reader.skip()
                        unsigned char* rowp = *it;
                        gil::copy_pixels(gil::interleaved_view((std::size_t)w, 1, (xit_t)rowp, (std::ptrdiff_t)reader._scanline_length),
                                         gil::subimage_view(gil::view(raw), 0, (int)row, (int)w, 1));
                    }
                    if (row != h || it != end) { o.cls = "rows"; o.what = "iterated " + std::to_string(row) + " rows of " + std::to_string(h); }
                });
            });
            if (cfg.scan_refused)
            {
                ok.cls = "skipped:refused";
                return ok;
            }
            if (o.cls != "ok") return fail(o.cls == "dims" || o.cls == "rows" || o.cls == "short" ? "scanline-mismatch" : "unexpected-exception", "scanline reader: " + o.cls + " " + o.what);
            Native conv(W, H);
            gil::copy_and_convert_pixels(gil::const_view(raw), gil::view(conv)); // same colour space: pairs channels by colour / rescales the channel
            for (long row = 0; row < H; ++row) // rows that were skipped are not compared
                if ((skipmask >> (row % 16)) & 1u)
                    gil::copy_pixels(gil::subimage_view(gil::const_view(ref), 0, (int)row, (int)W, 1), gil::subimage_view(gil::view(conv), 0, (int)row, (int)W, 1));
            if (!views_equal(gil::const_view(ref), gil::const_view(conv), why)) return fail("scanline-mismatch", "rows delivered by the scanline reader differ from read_image: " + why);
            return ok;
        }
        if (p == "any")
        {
            if (!cfg.any_ok) { ok.cls = "skipped"; return ok; }
            Any img; Outcome o;
            Rect const rg = cur_rect();
            settings_t st = rect_settings();
            guarded(o, [&] { with_read_device<Tag>(d, bytes, ext, [&](auto& dev) { gil::read_image(dev, img, st); }); });
            if (o.cls != "ok") return fail("unexpected-exception", "read_image(any_image)" + rg.text() + ": " + o.cls + " " + o.what);
            uint64_t pd = 0; long w = 0, h = 0;
            boost::variant2::visit(DigestVisitor{&pd, &w, &h}, gil::const_view(img));
            auto want = rg.on ? gil::subimage_view(gil::const_view(ref), (int)rg.x, (int)rg.y, (int)rg.w, (int)rg.h) : gil::const_view(ref);
            if (w != (long)want.width() || h != (long)want.height() || pd != view_digest(want))
                return fail("any-mismatch", "any_image read" + rg.text() + " differs from read_image into the native type (alternative " + std::to_string(img.index()) + ", got " + std::to_string(w) + "x" + std::to_string(h) + ")");
            return ok;
        }
        if (p == "rci" || p == "rcv")
        {
            if (cfg.convert_refused) { ok.cls = "skipped:refused"; return ok; }
            return convert(op.str("type"), d, p == "rcv");
        }
        ok.cls = "skipped"; return ok;
    }

    template <class ConvertFn> static Outcome run(Json const& plan, Bytes& bytes, char const* ext, PathsCfg const& cfg, ConvertFn&& convert)
    {
        Native ref;
        Outcome o;
        DevSpec canon; if (std::is_same<Tag, gil::tiff_tag>::value) canon.kind = DEV_NAME;
        guarded(o, [&] { with_read_device<Tag>(canon, bytes, ext, [&](auto& dev) { gil::read_image(dev, ref, Tag()); }); });
        // C13 quantifies over the files gil can read: a file that read_image rejects outright is outside it (counted, not judged)
        if (o.cls != "ok") { Outcome sk; sk.cls = "skipped:unreadable"; sk.what = o.cls + " " + o.what; return sk; }
        int done = 0, skipped = 0;
        for (auto const& op : plan.at("ops").a)
        {
            Outcome r = one(op, ref, bytes, ext, cfg, [&](std::string const& type, DevSpec const& d, bool as_view) { return convert(ref, type, d, as_view); });
            if (r.cls.compare(0, 10, "violation:") == 0) { r.what = "[" + op.str("p") + "] " + r.what; return r; }
            if (r.cls == "ok") ++done; else ++skipped;
        }
        Outcome ok; ok.cls = "ok"; ok.w = (long)ref.width(); ok.h = (long)ref.height(); ok.pix = view_digest(gil::const_view(ref));
        ok.extra = "paths=" + std::to_string(done) + " skipped=" + std::to_string(skipped);
        return ok;
    }
};

// dispatch of the conversion target by name over a list of pixel types
template <class Tag, class Native, class Any, class Scan, class... Ps> struct PathsFor;
template <class Tag, class Native, class Any, class Scan> struct PathsFor<Tag, Native, Any, Scan>
{
    static Outcome convert(char const* const*, Native const&, Bytes&, char const*, std::string const&, DevSpec const&, bool) { Outcome o; o.cls = "skipped"; return o; }
};
template <class Tag, class Native, class Any, class Scan, class P0, class... Ps> struct PathsFor<Tag, Native, Any, Scan, P0, Ps...>
{
    using PT = Paths<Tag, Native, Any, Scan>;
    static Outcome convert(char const* const* names, Native const& ref, Bytes& bytes, char const* ext, std::string const& type, DevSpec const& d, bool as_view)
    {
        if (type == *names) return PT::template check_convert<P0>(ref, bytes, ext, d, as_view);
        return PathsFor<Tag, Native, Any, Scan, Ps...>::convert(names + 1, ref, bytes, ext, type, d, as_view);
    }
    static Outcome run(Json const& plan, Bytes& bytes, char const* ext, PathsCfg const& cfg, char const* const* names)
    {
        return PT::run(plan, bytes, ext, cfg, [&](Native const& ref, std::string const& type, DevSpec const& d, bool as_view) {
            return convert(names, ref, bytes, ext, type, d, as_view);
        });
    }
};

} // namespace sim
