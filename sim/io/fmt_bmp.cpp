// BMP: gil writer variants + harness encoders for the variants gil can read but not write.
#include "iosim.hpp"
#include "fmt_common.hpp"
#include "iosim_rt.hpp"
#include <boost/gil/extension/io/bmp.hpp>

namespace sim {
namespace {

using Tag = gil::bmp_tag;
using R = Reader<Tag>;

void bmp_header(Bytes& b, uint32_t offbits, uint32_t hdr, int32_t w, int32_t h, uint16_t bpp, uint32_t compression, uint32_t clr_used)
{
    put8(b, 'B'); put8(b, 'M'); put32le(b, 0); put16le(b, 0); put16le(b, 0); put32le(b, offbits);
    put32le(b, hdr);
    if (hdr == 12) { put16le(b, (uint16_t)w); put16le(b, (uint16_t)h); put16le(b, 1); put16le(b, bpp); return; }
    put32le(b, (uint32_t)w); put32le(b, (uint32_t)h); put16le(b, 1); put16le(b, bpp); put32le(b, compression);
    put32le(b, 0); put32le(b, 2835); put32le(b, 2835); put32le(b, clr_used); put32le(b, 0);
    for (uint32_t i = 40; i < hdr; ++i) put8(b, 0);
}
void fix_sizes(Bytes& b) { set32le(b, 2, (uint32_t)b.size()); }

bool make_palette(std::string const& v, int w, int h, uint64_t cs, Bytes& b)
{
    int bpp = v == "pal1" ? 1 : v == "pal4" ? 4 : 8;
    bool os2 = v == "os2pal8";
    if (os2) bpp = 8;
    int ncol = 1 << bpp;
    uint32_t hdr = os2 ? 12 : 40;
    uint32_t off = 14 + hdr + (uint32_t)ncol * (os2 ? 3 : 4);
    bmp_header(b, off, hdr, w, h, (uint16_t)bpp, 0, os2 ? 0 : (uint32_t)ncol);
    Rng r(cs);
    for (int i = 0; i < ncol; ++i) { put8(b, (unsigned char)r.below(256)); put8(b, (unsigned char)r.below(256)); put8(b, (unsigned char)r.below(256)); if (!os2) put8(b, 0); }
    int pitch = (((w * bpp) + 7) / 8 + 3) & ~3;
    for (int y = 0; y < h; ++y)
    {
        Bytes row((size_t)pitch, 0);
        for (int x = 0; x < w; ++x)
        {
            unsigned idx = (unsigned)r.below((uint64_t)ncol);
            if (bpp == 8) row[(size_t)x] = (unsigned char)idx;
            else if (bpp == 4) row[(size_t)x / 2] |= (unsigned char)(idx << ((x & 1) ? 0 : 4));
            else row[(size_t)x / 8] |= (unsigned char)(idx << (7 - (x & 7)));
        }
        b.insert(b.end(), row.begin(), row.end());
    }
    fix_sizes(b);
    return true;
}

bool make_rle(std::string const& v, int w, int h, uint64_t cs, Bytes& b)
{
    bool r4 = v == "rle4";
    int bpp = r4 ? 4 : 8, ncol = 1 << bpp;
    uint32_t off = 14 + 40 + (uint32_t)ncol * 4;
    bmp_header(b, off, 40, w, h, (uint16_t)bpp, r4 ? 2 : 1, (uint32_t)ncol);
    Rng r(cs);
    for (int i = 0; i < ncol; ++i) { put8(b, (unsigned char)r.below(256)); put8(b, (unsigned char)r.below(256)); put8(b, (unsigned char)r.below(256)); put8(b, 0); }
    size_t data0 = b.size();
    for (int y = 0; y < h; ++y)
    {
        int x = 0;
        while (x < w)
        {
            int left = w - x;
            unsigned kind = (unsigned)r.below(10);
            if (kind < 6 || left < 3)
            {
                int n = (int)r.range(1, std::min(left, 9));
                unsigned c = (unsigned)r.below(256);
                put8(b, (unsigned char)n); put8(b, (unsigned char)(r4 ? c : c % (unsigned)ncol));
                x += n;
            }
            else
            {
                int n = (int)r.range(3, std::min(left, 7));
                put8(b, 0); put8(b, (unsigned char)n);
                int nbytes = r4 ? (n + 1) / 2 : n;
                // literal pixel bytes that look like escape codes (00 00, 00 01, 00 02) when a decoder loses its place in the
                // stream, e.g. while clipping a run at the edge of a region: a quarter zeros, an eighth 1 or 2
                for (int i = 0; i < nbytes; ++i)
                {
                    unsigned q = (unsigned)r.below(8), any = (unsigned)r.below(256);
                    put8(b, (unsigned char)(q < 2 ? 0 : q == 2 ? 1 + (any & 1) : any));
                }
                if ((b.size() - data0) & 1) put8(b, 0);
                x += n;
            }
        }
        put8(b, 0); put8(b, y == h - 1 ? 1 : 0); // EOL / EOB
    }
    fix_sizes(b);
    return true;
}

bool make_16(std::string const& v, int w, int h, uint64_t cs, Bytes& b)
{
    bool bf = v == "bf565";
    uint32_t off = 14 + 40 + (bf ? 12 : 0);
    bmp_header(b, off, 40, w, h, 16, bf ? 3 : 0, 0);
    if (bf) { put32le(b, 0xF800); put32le(b, 0x07E0); put32le(b, 0x001F); }
    Rng r(cs);
    int pitch = (w * 2 + 3) & ~3;
    for (int y = 0; y < h; ++y)
    {
        Bytes row((size_t)pitch, 0);
        for (int x = 0; x < w; ++x) { unsigned p = (unsigned)r.below(bf ? 65536 : 32768); row[(size_t)x * 2] = (unsigned char)p; row[(size_t)x * 2 + 1] = (unsigned char)(p >> 8); }
        b.insert(b.end(), row.begin(), row.end());
    }
    fix_sizes(b);
    return true;
}

bool make_raw(std::string const& v, int w, int h, uint64_t cs, Bytes& b)
{
    // hand-written 24/32-bit with unusual headers: top-down (negative height), V4 (108), V5 (124)
    bool topdown = v == "topdown24";
    uint32_t hdr = v == "v4_24" ? 108 : v == "v5_32" ? 124 : 40;
    int bpp = v == "v5_32" ? 32 : 24;
    bmp_header(b, 14 + hdr, hdr, w, topdown ? -h : h, (uint16_t)bpp, 0, 0);
    Rng r(cs);
    int pitch = (w * (bpp / 8) + 3) & ~3;
    for (int y = 0; y < h; ++y)
    {
        Bytes row((size_t)pitch, 0);
        for (int x = 0; x < w * (bpp / 8); ++x) row[(size_t)x] = (unsigned char)r.below(256);
        b.insert(b.end(), row.begin(), row.end());
    }
    fix_sizes(b);
    return true;
}

std::vector<Variant> const& g_variants()
{
    static std::vector<Variant> const v = {{"rgb8", "rgb8"}, {"rgba8", "rgba8"}, {"pal1", "rgba8"}, {"pal4", "rgba8"}, {"pal8", "rgba8"}, {"os2pal8", "rgb8"},
                  {"rle4", "rgb8"}, {"rle8", "rgb8"}, {"rgb555", "rgb8"}, {"bf565", "rgb8"}, {"topdown24", "rgb8"}, {"v4_24", "rgb8"}, {"v5_32", "rgba8"}};
    return v;
}

bool make(std::string const& v, int w, int h, uint64_t cs, Bytes& out)
{
    out.clear();
    if (v == "rgb8") return write_with_gil<gil::rgb8_image_t, Tag>(w, h, cs, out, "bmp");
    if (v == "rgba8") return write_with_gil<gil::rgba8_image_t, Tag>(w, h, cs, out, "bmp");
    if (v == "pal1" || v == "pal4" || v == "pal8" || v == "os2pal8") return make_palette(v, w, h, cs, out);
    if (v == "rle4" || v == "rle8") return make_rle(v, w, h, cs, out);
    if (v == "rgb555" || v == "bf565") return make_16(v, w, h, cs, out);
    if (v == "topdown24" || v == "v4_24" || v == "v5_32") return make_raw(v, w, h, cs, out);
    return false;
}

Outcome read(ReadSpec const& s, Bytes& b)
{
    char const* ext = "bmp";
    if (s.entry == "info") return R::info(s, b, ext);
    if (s.entry == "any") return R::any<gil::any_image<gil::rgb8_image_t, gil::rgba8_image_t>>(s, b, ext);
    if (s.entry == "rci" || s.entry == "rcv")
    {
        if (s.type == "gray8") return R::convert_entry<gil::gray8_image_t>(s, b, ext);
        if (s.type == "rgb8") return R::convert_entry<gil::rgb8_image_t>(s, b, ext);
        if (s.type == "rgba8") return R::convert_entry<gil::rgba8_image_t>(s, b, ext);
    }
    else
    {
        if (s.type == "rgb8") return R::native_entry<gil::rgb8_image_t>(s, b, ext);
        if (s.type == "rgba8") return R::native_entry<gil::rgba8_image_t>(s, b, ext);
    }
    Outcome o; o.cls = "skipped:type"; return o;
}

std::vector<Field> fields(Bytes const& b)
{
    std::vector<Field> f = {{"magic", 0, 2, false}, {"filesize", 2, 4, false}, {"offbits", 10, 4, false}, {"hdrsize", 14, 4, false}};
    uint32_t hdr = b.size() >= 18 ? get32le(b, 14) : 40;
    if (hdr == 12) { f.push_back({"width", 18, 2, false}); f.push_back({"height", 20, 2, false}); f.push_back({"planes", 22, 2, false}); f.push_back({"bpp", 24, 2, false}); }
    else
    {
        f.push_back({"width", 18, 4, false}); f.push_back({"height", 22, 4, false}); f.push_back({"planes", 26, 2, false}); f.push_back({"bpp", 28, 2, false});
        f.push_back({"compression", 30, 4, false}); f.push_back({"imagesize", 34, 4, false}); f.push_back({"clrused", 46, 4, false}); f.push_back({"clrimportant", 50, 4, false});
        f.push_back({"mask_r", 54, 4, false}); f.push_back({"mask_g", 58, 4, false}); f.push_back({"mask_b", 62, 4, false});
        uint32_t comp = b.size() >= 34 ? get32le(b, 30) : 0;
        if (comp == 1 || comp == 2)
        {
            // run-length stream: the two bytes of every packet (count / value or escape code) are fields
            size_t off = get32le(b, 10); int k = 0; bool r4 = comp == 2;
            while (off + 1 < b.size() && k < 20)
            {
                f.push_back({"rle" + std::to_string(k) + "_count", off, 1, false});
                f.push_back({"rle" + std::to_string(k) + "_second", off + 1, 1, false});
                unsigned c = b[off], v = b[off + 1];
                off += 2; ++k;
                if (c == 0)
                {
                    if (v == 1) break;
                    if (v == 2) off += 2;
                    else if (v >= 3) { size_t nb = r4 ? (v + 1) / 2 : v; off += nb + (nb & 1); }
                }
            }
        }
    }
    return f;
}

long declared(Bytes const& b)
{
    if (b.size() < 26) return -1;
    uint32_t hdr = get32le(b, 14);
    long long w, h;
    if (hdr == 12) { w = get16le(b, 18); h = get16le(b, 20); }
    else { w = (int32_t)get32le(b, 18); h = (int32_t)get32le(b, 22); }
    if (h < 0) h = -h;
    if (w < 0) w = -w;
    if (w > (1 << 24) || h > (1 << 24)) return -1;
    return (long)(w * h);
}

Outcome roundtrip(Json const& plan)
{
    std::string v = plan.str("variant");
    gil::image_write_info<Tag> info;
    if (v == "rgb8") return RoundTrip<Tag, gil::rgb8_image_t, true>::run(plan, "bmp", info);
    if (v == "rgba8") return RoundTrip<Tag, gil::rgba8_image_t, true>::run(plan, "bmp", info);
    if (v == "bgr8") return RoundTrip<Tag, gil::bgr8_image_t, true>::run(plan, "bmp", info);
    if (v == "bgra8") return RoundTrip<Tag, gil::bgra8_image_t, true>::run(plan, "bmp", info);
    Outcome o; o.cls = "skipped:type"; return o;
}

Outcome paths(Json const& plan)
{
    std::string v = plan.str("variant");
    Bytes bytes;
    if (!make(v, (int)plan.num("w", 1), (int)plan.num("h", 1), (uint64_t)plan.num("cseed"), bytes)) { Outcome o; o.cls = "skipped:variant"; return o; }
    using any_t = gil::any_image<gil::rgb8_image_t, gil::rgba8_image_t>;
    static char const* const names[] = {"gray8", "rgb8", "rgba8"};
    PathsCfg cfg;
    cfg.seeks = true;
    cfg.scan_refused = (v == "rle4" || v == "rle8"); // bmp/detail/scanline_read.hpp: "Cannot read run-length encoded images in iterator mode."
    // OS/2 palette images: read_image accepts only rgb8 (is_allowed) while the scanline reader hands out rgba8 rows
    // with alpha 0; the two layouts cannot be compared channel by channel, so the scanline path is not judged there
    if (v == "os2pal8") cfg.scan_refused = true;
    std::string native;
    for (auto const& x : g_variants()) if (x.name == v) native = x.native;
    // layout of the rows handed out by the scanline reader (cf. test/extension/io/bmp/bmp_read_test.cpp):
    // 24 bit -> bgr8, 32 bit -> bgra8, palette and 15/16 bit -> the read_image type
    using P3 = gil::gray8_pixel_t; using P4 = gil::rgb8_pixel_t; using P5 = gil::rgba8_pixel_t;
    if (v == "rgb8" || v == "topdown24" || v == "v4_24") return PathsFor<Tag, gil::rgb8_image_t, any_t, gil::bgr8_image_t, P3, P4, P5>::run(plan, bytes, "bmp", cfg, names);
    if (v == "rgba8" || v == "v5_32") return PathsFor<Tag, gil::rgba8_image_t, any_t, gil::bgra8_image_t, P3, P4, P5>::run(plan, bytes, "bmp", cfg, names);
    if (native == "rgba8") return PathsFor<Tag, gil::rgba8_image_t, any_t, gil::rgba8_image_t, P3, P4, P5>::run(plan, bytes, "bmp", cfg, names);
    return PathsFor<Tag, gil::rgb8_image_t, any_t, gil::rgb8_image_t, P3, P4, P5>::run(plan, bytes, "bmp", cfg, names);
}

Format make_format()
{
    Format f;
    f.name = "bmp"; f.ext = "bmp";
    f.variants = g_variants();
    f.write_types = {"rgb8", "rgba8", "bgr8", "bgra8"};
    f.roundtrip = roundtrip; f.paths = paths;
    f.native_types = {"rgb8", "rgba8"};
    f.convert_types = {"gray8", "rgb8", "rgba8"};
    f.devices = {"FILE", "istream", "name"};
    f.make = make; f.read = read; f.fields = fields; f.declared_pixels = declared;
    return f;
}
Format g_fmt = make_format();
struct Reg { Reg() { formats().push_back(&g_fmt); } } g_reg;

} // namespace
} // namespace sim
