// iosim: gil readers/writers over simulated devices and a simulated disk (DESIGN.md 4).
#pragma once
#include "devices.hpp"
#include "../core/json.hpp"
#include "../mem/kinds.hpp" // ChanHash / ChanSet
#include <boost/gil.hpp>
#include <boost/gil/extension/dynamic_image/any_image.hpp>
#include <boost/gil/io/base.hpp>
#include <boost/gil/io/get_reader.hpp>
#include <boost/gil/io/get_read_device.hpp>
#include <boost/gil/io/make_backend.hpp>
#include <boost/gil/io/make_dynamic_image_reader.hpp>
#include <boost/gil/io/make_reader.hpp>
#include <boost/gil/io/make_scanline_reader.hpp>
#include <boost/gil/io/read_and_convert_image.hpp>
#include <boost/gil/io/read_and_convert_view.hpp>
#include <boost/gil/io/read_image.hpp>
#include <boost/gil/io/read_image_info.hpp>
#include <boost/gil/io/read_view.hpp>
#include <boost/gil/io/scanline_read_iterator.hpp>
#include <boost/gil/io/write_view.hpp>
#include <tiffio.h>
#include <cxxabi.h>
#include <functional>
#include <ios>
#include <stdexcept>
#include <typeinfo>

namespace boost { namespace gil { struct tiff_tag; } }
namespace sim {

TIFF* open_tiff_client(Channel* ch, char const* mode);
void silence_libtiff();
extern size_t g_new_cap;
extern unsigned char g_new_poison;
extern long g_new_refused;

namespace gil = boost::gil;

// ---------------------------------------------------------------------------------- outcome
struct Outcome
{
    std::string cls = "not-run"; // ok | ios_failure | bad_alloc | length_error | exception:<type> | skipped:<why>
    long w = -1, h = -1;
    uint64_t pix = 0;
    std::string what;
    std::string extra;
    uint64_t digest() const
    {
        Hash hs; hs.str(cls.c_str()); hs.u64((uint64_t)w); hs.u64((uint64_t)h); hs.u64(pix); hs.str(extra.c_str());
        return hs.h;
    }
};

inline std::string demangle(char const* n)
{
    int st = 0;
    char* d = abi::__cxa_demangle(n, nullptr, nullptr, &st);
    std::string r = (st == 0 && d) ? d : n;
    free(d);
    return r;
}

template <class F> void guarded(Outcome& o, F&& f)
{
    try { f(); if (o.cls == "not-run") o.cls = "ok"; }
    catch (std::ios_base::failure const& e) { o.cls = "ios_failure"; o.what = e.what(); }
    catch (std::bad_alloc const&) { o.cls = "bad_alloc"; }
    catch (std::length_error const& e) { o.cls = "length_error"; o.what = e.what(); }
    catch (std::exception const& e) { o.cls = "exception:" + demangle(typeid(e).name()); o.what = e.what(); }
    catch (...) { o.cls = "exception:unknown"; }
}

template <class View> uint64_t view_digest(View const& v)
{
    Hash hs;
    hs.u64((uint64_t)v.width()); hs.u64((uint64_t)v.height());
    using value_t = typename View::value_type;
    for (std::ptrdiff_t y = 0; y < v.height(); ++y)
        for (std::ptrdiff_t x = 0; x < v.width(); ++x)
        {
            value_t p(v(x, y));
            gil::static_for_each(p, ChanHash{&hs});
        }
    return hs.h;
}

struct DigestVisitor
{
    using result_type = void;
    uint64_t* out; long* w; long* h;
    template <class V> void operator()(V const& v) const { *out = view_digest(v); *w = (long)v.width(); *h = (long)v.height(); }
};

struct ChanSmooth
{
    uint64_t seed; std::ptrdiff_t x, y; mutable int c = 0;
    template <class C> void operator()(C&& ch) const
    {
        using CT = gil::channel_traits<typename std::remove_reference<C>::type>;
        using VT = typename CT::value_type;
        double lo = (double)CT::min_value(), hi = (double)CT::max_value();
        long t = (long)((seed >> (8 * c)) % 510 + (uint64_t)(2 * x + 3 * y + 40 * c)) % 510;
        ++c;
        double f = (t < 256 ? t : 510 - t) / 255.0;
        ch = VT(lo + (hi - lo) * f);
    }
};

template <class P> void opaque(P& p, std::true_type)
{
    using ch_t = typename std::remove_reference<decltype(gil::get_color(p, gil::alpha_t()))>::type;
    gil::get_color(p, gil::alpha_t()) = gil::channel_traits<ch_t>::max_value();
}
template <class P> void opaque(P&, std::false_type) {}

// deterministic content for generated images
template <class View> void fill_pattern(View const& v, uint64_t seed, int mode = 0)
{
    using value_t = typename View::value_type;
    for (std::ptrdiff_t y = 0; y < v.height(); ++y)
        for (std::ptrdiff_t x = 0; x < v.width(); ++x)
        {
            value_t p;
            if (mode == 3)
            {
                // smooth content: triangle wave with small slopes, no discontinuities (for lossy formats)
                gil::static_for_each(p, ChanSmooth{seed, x, y});
                v(x, y) = p;
                continue;
            }
            uint64_t k = mode == 1 ? seed : mode == 2 ? mix(seed, (uint64_t)((x / 4) + 7 * (y / 4))) : mix(seed, (uint64_t)(y * 65537 + x));
            gil::static_for_each(p, ChanSet{k});
            if (mode == 4) opaque(p, typename boost::mp11::mp_contains<typename gil::color_space_type<value_t>::type, gil::alpha_t>::type()); // random colours, alpha = max
            v(x, y) = p;
        }
}
template <class View> void fill_const(View const& v, unsigned char b)
{
    using value_t = typename View::value_type;
    value_t p;
    gil::static_for_each(p, ChanSet{(uint64_t)b * 0x0101010101010101ull});
    for (std::ptrdiff_t y = 0; y < v.height(); ++y)
        for (std::ptrdiff_t x = 0; x < v.width(); ++x) v(x, y) = p;
}

// ------------------------------------------------------------------------------ run spec
enum DevKind { DEV_FILE = 0, DEV_ISTREAM = 1, DEV_NAME = 2, DEV_TIFFH = 3 };

struct DevSpec
{
    DevKind kind = DEV_FILE;
    Schedule sch;
    int bufsz = -1;   // stdio buffer / streambuf area size
    int showmany = 0;
    int preamble = 0; // write side: bytes of earlier output already in the FILE* / ostream when write_view is called
};

inline char const* dev_name(DevKind k) { return k == DEV_FILE ? "FILE" : k == DEV_ISTREAM ? "istream" : k == DEV_NAME ? "name" : "TIFF"; }
inline DevKind dev_kind(std::string const& s) { return s == "istream" ? DEV_ISTREAM : s == "name" ? DEV_NAME : s == "TIFF" ? DEV_TIFFH : DEV_FILE; }

inline DevSpec dev_from_json(Json const& j)
{
    DevSpec d;
    d.kind = dev_kind(j.str("dev", "FILE"));
    std::string sk = j.str("sched", "full");
    d.sch.kind = sk == "one" ? 1 : sk == "half" ? 2 : sk == "pat" ? 3 : 0;
    for (auto const& e : j.at("pat").a) d.sch.pat.push_back((int)e.i);
    d.bufsz = (int)j.num("bufsz", -1);
    d.showmany = (int)j.num("showmany", 0);
    d.sch.seekable = j.num("noseek", 0) == 0;
    d.preamble = (int)j.num("pre", 0);
    return d;
}

template <class F> void tiff_handle_case(DevSpec const& d, Bytes& bytes, F&& f, std::true_type)
{
    Channel* ch = disk()->open_bytes(&bytes, false, d.sch);
    TIFF* t = open_tiff_client(ch, "r");
    if (!t) throw std::ios_base::failure("TIFFClientOpen failed");
    f(t); // gil's tiff device takes ownership (TIFFClose)
}
template <class F> void tiff_handle_case(DevSpec const&, Bytes&, F&&, std::false_type) {}

template <class F> void stdio_handle_case(DevSpec const& d, Bytes& bytes, F&& f, std::true_type)
{
    Channel* ch = disk()->open_bytes(&bytes, false, d.sch);
    FILE* fp = open_cookie(ch, "rb", d.bufsz);
    if (!fp) throw std::runtime_error("fopencookie failed");
    f(fp); // gil's file_stream_device(FILE*) takes ownership and closes
}
template <class F> void stdio_handle_case(DevSpec const&, Bytes&, F&&, std::false_type) {} // gil's tiff device has no FILE* form

// open a read device on `bytes` and hand it to f as an lvalue of the type gil expects
template <class Tag, class F> void with_read_device(DevSpec const& d, Bytes& bytes, char const* ext, F&& f)
{
    Disk* dk = disk();
    switch (d.kind)
    {
    case DEV_FILE:
        stdio_handle_case(d, bytes, f, std::integral_constant<bool, !std::is_same<Tag, gil::tiff_tag>::value>());
        break;
    case DEV_ISTREAM:
    {
        Channel* ch = dk->open_bytes(&bytes, false, d.sch);
        Streambuf sb(ch, d.bufsz <= 0 ? (d.bufsz == 0 ? 1 : 4096) : (size_t)d.bufsz, d.showmany);
        std::istream is(&sb);
        f(is);
        break;
    }
    case DEV_NAME:
    {
        std::string name = std::string("sim:in.") + ext;
        dk->files[name] = bytes;
        dk->default_read_schedule = d.sch;
        dk->stdio_bufsz = d.bufsz;
        f(name);
        break;
    }
    case DEV_TIFFH:
        tiff_handle_case(d, bytes, f, std::is_same<Tag, gil::tiff_tag>());
        break;
    }
}

inline uint32_t sim_crc32(unsigned char const* p, size_t n)
{
    uint32_t c = 0xFFFFFFFFu;
    for (size_t i = 0; i < n; ++i)
    {
        c ^= p[i];
        for (int k = 0; k < 8; ++k) c = (c >> 1) ^ (0xEDB88320u & (0u - (c & 1u)));
    }
    return c ^ 0xFFFFFFFFu;
}

// -------------------------------------------------------------------------------- file faults
inline void apply_file_faults(Bytes& b, Json const& ops, long* fired)
{
    for (auto const& op : ops.a)
    {
        std::string f = op.str("f");
        if (b.empty()) break;
        if (f == "trunc") { size_t n = (size_t)op.num("n") % (b.size() + 1); if (n < b.size()) { b.resize(n); ++*fired; } if (b.empty()) break; }
        else if (f == "flip") { size_t off = (size_t)op.num("off") % b.size(); b[off] ^= (unsigned char)(1u << (op.num("bit") & 7)); ++*fired; }
        else if (f == "set")
        {
            size_t off = (size_t)op.num("off") % b.size();
            int width = (int)op.num("width", 1);
            uint64_t val = (uint64_t)op.num("val");
            bool be = op.num("be") != 0;
            for (int i = 0; i < width && off + (size_t)i < b.size(); ++i)
            {
                int sh = be ? 8 * (width - 1 - i) : 8 * i;
                b[off + (size_t)i] = (unsigned char)(val >> sh);
            }
            ++*fired;
        }
        else if (f == "splice")
        {
            size_t off = (size_t)op.num("off") % b.size();
            size_t i = 0;
            for (auto const& e : op.at("bytes").a) { if (off + i < b.size()) b[off + i] = (unsigned char)e.i; ++i; }
            ++*fired;
        }
        else if (f == "insert")
        {
            size_t off = (size_t)op.num("off") % (b.size() + 1);
            Bytes ins; for (auto const& e : op.at("bytes").a) ins.push_back((unsigned char)e.i);
            b.insert(b.begin() + (std::ptrdiff_t)off, ins.begin(), ins.end());
            ++*fired;
        }
        else if (f == "pngcrc")
        {
            // walk the chunks; recompute the CRC of every chunk whose stored CRC is wrong
            size_t off = 8;
            while (off + 12 <= b.size())
            {
                uint32_t len = ((uint32_t)b[off] << 24) | ((uint32_t)b[off + 1] << 16) | ((uint32_t)b[off + 2] << 8) | b[off + 3];
                if ((size_t)len > b.size() || off + 12 + len > b.size()) break;
                uint32_t c = sim_crc32(&b[off + 4], 4 + (size_t)len);
                size_t co = off + 8 + len;
                b[co] = (unsigned char)(c >> 24); b[co + 1] = (unsigned char)(c >> 16); b[co + 2] = (unsigned char)(c >> 8); b[co + 3] = (unsigned char)c;
                off += 12 + len;
            }
            ++*fired;
        }
        else if (f == "digits")
        {
            size_t off = (size_t)op.num("off") % (b.size() + 1);
            Bytes ins((size_t)(1 + op.num("len") % 64), (unsigned char)('0' + op.num("d") % 10));
            b.insert(b.begin() + (std::ptrdiff_t)off, ins.begin(), ins.end());
            ++*fired;
        }
        else if (f == "cut")
        {
            size_t off = (size_t)op.num("off") % b.size();
            size_t len = (size_t)op.num("len", 1);
            if (off + len > b.size()) len = b.size() - off;
            b.erase(b.begin() + (std::ptrdiff_t)off, b.begin() + (std::ptrdiff_t)(off + len));
            ++*fired;
        }
    }
}
inline void device_faults(DevSpec& d, Json const& ops)
{
    for (auto const& op : ops.a)
    {
        std::string f = op.str("f");
        if (f == "eio") { d.sch.eio_at = (long)op.num("k"); d.sch.eio_sticky = op.num("sticky") != 0; }
        else if (f == "seekfail") d.sch.seekfail_at = (long)op.num("k");
        else if (f == "noseek") d.sch.seekable = false;
    }
}

// ------------------------------------------------------------------------ generic read entries
struct Field { std::string name; size_t off; int width; bool be; };

struct ReadSpec
{
    std::string entry; // info | read_image | read_view | rci | rcv | scanline | any
    std::string type;  // pixel type name
    DevSpec dev;
    long sub_x = 0, sub_y = 0, sub_w = 0, sub_h = 0; // image_read_settings sub-rectangle (0 = whole)
    bool prefill = true;
    bool meta = false; // ask the reader for all optional metadata (formats whose settings offer it)
    unsigned skipmask = 0; // scanline entry: rows (mod 16) that are stepped over without being dereferenced (reader.skip)
};

template <class Tag>
struct Reader
{
    using settings_t = gil::image_read_settings<Tag>;

    template <class S> static auto all_meta(S& st, int) -> decltype(st.set_read_members_true(), void()) { st.set_read_members_true(); }
    template <class S> static void all_meta(S&, long) {}
    static settings_t settings(ReadSpec const& s)
    {
        settings_t st;
        if (s.sub_w > 0 || s.sub_h > 0 || s.sub_x > 0 || s.sub_y > 0)
            st = settings_t(gil::point_t(s.sub_x, s.sub_y), gil::point_t(s.sub_w, s.sub_h));
        if (s.meta) all_meta(st, 0);
        return st;
    }

    // dimensions reported by a pristine FILE* read of the header (for pre-sizing destinations)
    static bool probe(Bytes& bytes, char const* ext, long& w, long& h)
    {
        Outcome o;
        DevSpec d; // FILE* (file name for tiff), full delivery, default buffer
        if (std::is_same<Tag, gil::tiff_tag>::value) d.kind = DEV_NAME;
        guarded(o, [&] {
            with_read_device<Tag>(d, bytes, ext, [&](auto& dev) {
                auto be = gil::read_image_info(dev, Tag());
                w = (long)be._info._width; h = (long)be._info._height;
            });
        });
        return o.cls == "ok";
    }

    static Outcome info(ReadSpec const& s, Bytes& bytes, char const* ext)
    {
        Outcome o;
        guarded(o, [&] {
            with_read_device<Tag>(s.dev, bytes, ext, [&](auto& dev) {
                auto be = gil::read_image_info(dev, settings(s));
                o.w = (long)be._info._width; o.h = (long)be._info._height;
            });
        });
        return o;
    }

    template <class Img> static void presize(Img& img, ReadSpec const& s, Bytes& bytes, char const* ext, bool& sized)
    {
        long w = 0, h = 0;
        sized = false;
        if (!s.prefill) return;
        if (!probe(bytes, ext, w, h)) return;
        if (s.sub_w > 0) w = s.sub_w; else if (s.sub_x > 0) w -= s.sub_x;
        if (s.sub_h > 0) h = s.sub_h; else if (s.sub_y > 0) h -= s.sub_y;
        if (w <= 0 || h <= 0 || w > 4096 || h > 4096 || w * h > (1 << 16)) return; // larger declared sizes: not pre-filled, pixels not hashed
        img.recreate(w, h);
        fill_const(gil::view(img), 0x5A);
        sized = true;
    }

    // Pixels are hashed only if the destination was pre-filled (or is small): otherwise pixels that a reader legitimately
    // leaves untouched would carry the build's poison into the digest.
    template <class Img> static uint64_t pix_if(bool sized, Img const& img)
    {
        if (sized || img.width() * img.height() <= 4096) return view_digest(gil::const_view(img));
        return 0x5151515151515151ull;
    }

    template <class Img> static Outcome read_image(ReadSpec const& s, Bytes& bytes, char const* ext)
    {
        Outcome o;
        guarded(o, [&] {
            Img img; bool sized;
            presize(img, s, bytes, ext, sized);
            with_read_device<Tag>(s.dev, bytes, ext, [&](auto& dev) { gil::read_image(dev, img, settings(s)); });
            o.w = (long)img.width(); o.h = (long)img.height(); o.pix = pix_if(sized, img);
        });
        return o;
    }
    template <class Img> static Outcome read_view(ReadSpec const& s, Bytes& bytes, char const* ext)
    {
        Outcome o;
        guarded(o, [&] {
            Img img; bool sized;
            presize(img, s, bytes, ext, sized);
            if (!sized) { o.cls = "skipped:no-info"; return; }
            with_read_device<Tag>(s.dev, bytes, ext, [&](auto& dev) { gil::read_view(dev, gil::view(img), settings(s)); });
            o.w = (long)img.width(); o.h = (long)img.height(); o.pix = view_digest(gil::const_view(img));
        });
        return o;
    }
    template <class Img> static Outcome rci(ReadSpec const& s, Bytes& bytes, char const* ext)
    {
        Outcome o;
        guarded(o, [&] {
            Img img; bool sized;
            presize(img, s, bytes, ext, sized);
            with_read_device<Tag>(s.dev, bytes, ext, [&](auto& dev) { gil::read_and_convert_image(dev, img, settings(s)); });
            o.w = (long)img.width(); o.h = (long)img.height(); o.pix = pix_if(sized, img);
        });
        return o;
    }
    template <class Img> static Outcome rcv(ReadSpec const& s, Bytes& bytes, char const* ext)
    {
        Outcome o;
        guarded(o, [&] {
            Img img; bool sized;
            presize(img, s, bytes, ext, sized);
            if (!sized) { o.cls = "skipped:no-info"; return; }
            with_read_device<Tag>(s.dev, bytes, ext, [&](auto& dev) { gil::read_and_convert_view(dev, gil::view(img), settings(s)); });
            o.w = (long)img.width(); o.h = (long)img.height(); o.pix = view_digest(gil::const_view(img));
        });
        return o;
    }
    template <class Img> static Outcome scanline(ReadSpec const& s, Bytes& bytes, char const* ext)
    {
        Outcome o;
        guarded(o, [&] {
            Img dst;
            with_read_device<Tag>(s.dev, bytes, ext, [&](auto& dev) {
                using dev_t = typename std::remove_reference<decltype(dev)>::type;
                using device_t = typename gil::get_read_device<dev_t, Tag>::type;
                using reader_t = gil::scanline_reader<device_t, Tag>;
                reader_t reader = gil::make_scanline_reader(dev, Tag());
                long w = (long)reader._info._width, h = (long)reader._info._height;
                if (w <= 0 || h <= 0 || w > 65536 || h > 65536) { o.cls = "skipped:dims"; o.w = w; o.h = h; return; }
                dst.recreate(w, h);
                fill_const(gil::view(dst), 0x5A);
                auto it = reader.begin();
                auto end = reader.end();
                long row = 0;
                // the scanline reader hands out raw bytes of the file's native layout; never look at more
                // of them than the row buffer (reader._scanline_length bytes) holds
                using xit_t = typename Img::view_t::x_iterator;
                long unit_bits = (long)gil::memunit_step(xit_t()) * (8 / (long)gil::byte_to_memunit<xit_t>::value);
                long fit = unit_bits > 0 ? (long)reader._scanline_length * 8 / unit_bits : 0;
                long cw = std::min(w, fit);
                for (; it != end && row < h; ++it, ++row)
                {
                    if ((s.skipmask >> (row % 16)) & 1u) continue; // not dereferenced: the iterator calls reader.skip()
                    unsigned char* rowp = *it;
                    if (cw > 0)
                        gil::copy_pixels(gil::interleaved_view((std::size_t)cw, 1, (xit_t)rowp, (std::ptrdiff_t)reader._scanline_length),
                                         gil::subimage_view(gil::view(dst), 0, (int)row, (int)cw, 1));
                }
                o.extra = "rows=" + std::to_string(row) + (cw < w ? " short-scanline" : "");
            });
            if (o.cls == "not-run") { o.w = (long)dst.width(); o.h = (long)dst.height(); o.pix = view_digest(gil::const_view(dst)); }
        });
        return o;
    }
    template <class Any> static Outcome any(ReadSpec const& s, Bytes& bytes, char const* ext)
    {
        Outcome o;
        guarded(o, [&] {
            Any img;
            with_read_device<Tag>(s.dev, bytes, ext, [&](auto& dev) { gil::read_image(dev, img, Tag()); });
            boost::variant2::visit(DigestVisitor{&o.pix, &o.w, &o.h}, gil::const_view(img));
            o.extra = "index=" + std::to_string(img.index());
        });
        return o;
    }

    template <class Img> static Outcome native_entry(ReadSpec const& s, Bytes& bytes, char const* ext)
    {
        if (s.entry == "read_image") return read_image<Img>(s, bytes, ext);
        if (s.entry == "read_view") return read_view<Img>(s, bytes, ext);
        if (s.entry == "scanline") return scanline<Img>(s, bytes, ext);
        Outcome o; o.cls = "skipped:entry"; return o;
    }
    template <class Img> static Outcome native_entry_noscan(ReadSpec const& s, Bytes& bytes, char const* ext)
    {
        if (s.entry == "read_image") return read_image<Img>(s, bytes, ext);
        if (s.entry == "read_view") return read_view<Img>(s, bytes, ext);
        Outcome o; o.cls = "skipped:entry"; return o;
    }
    template <class Img> static Outcome convert_entry(ReadSpec const& s, Bytes& bytes, char const* ext)
    {
        if (s.entry == "rci") return rci<Img>(s, bytes, ext);
        if (s.entry == "rcv") return rcv<Img>(s, bytes, ext);
        Outcome o; o.cls = "skipped:entry"; return o;
    }
};

// ----------------------------------------------------------------------------- format registry
struct Variant { std::string name; std::string native; };

struct Format
{
    std::string name, ext;
    std::vector<Variant> variants;
    std::vector<std::string> native_types, convert_types, write_types;
    std::vector<std::string> write_options; // format specific option names understood by roundtrip()
    std::vector<std::string> devices;
    bool has_scanline = true, has_any = true;
    std::function<bool(std::string const& variant, int w, int h, uint64_t cseed, Bytes& out)> make;
    std::function<Outcome(ReadSpec const&, Bytes&)> read;
    std::function<std::vector<Field>(Bytes const&)> fields;
    std::function<long(Bytes const&)> declared_pixels; // -1 if unknown
    // C12: write `variant`-typed view through device/options in the plan, read back, compare
    std::function<Outcome(Json const& plan)> roundtrip;
    // C13
    std::function<Outcome(Json const& plan)> paths;
};

std::vector<Format*>& formats();
inline Format* find_format(std::string const& n)
{
    for (auto f : formats()) if (f->name == n) return f;
    return nullptr;
}

} // namespace sim
