// TIFF: gil writer (strips / tiles, compression, planar config) + libtiff-written palette / min-is-white variants.
#include "iosim.hpp"
#include "fmt_common.hpp"
#include "iosim_rt.hpp"
#include <boost/gil/extension/io/tiff.hpp>
#include <tiffio.h>

namespace sim {
namespace {

using Tag = gil::tiff_tag;
using R = Reader<Tag>;
using info_t = gil::image_write_info<Tag>;

template <class Img> bool write_tiff(int w, int h, uint64_t cs, Bytes& out, info_t const& info, int mode = 0)
{
    Img img(w, h);
    fill_pattern(gil::view(img), cs, mode);
    std::string name = "sim:gen.tif";
    disk()->files.erase(name);
    gil::write_view(name, gil::view(img), info);
    out = disk()->files[name];
    disk()->files.erase(name);
    return !out.empty();
}

info_t opts(std::string const& v)
{
    info_t i;
    if (v.find("_lzw") != std::string::npos) i._compression = COMPRESSION_LZW;
    if (v.find("_deflate") != std::string::npos) i._compression = COMPRESSION_ADOBE_DEFLATE;
    if (v.find("_packbits") != std::string::npos) i._compression = COMPRESSION_PACKBITS;
    if (v.find("_tile") != std::string::npos) { i._is_tiled = true; i._tile_width = 16; i._tile_length = 16; }
    // PLANARCONFIG_SEPARATE is not generated through gil's writer: it copies interleaved rows/tiles whatever the
    // planar configuration (tiled + separate overflows the tile buffer); planar files are written with libtiff below
    return i;
}

bool make_libtiff(std::string const& v, int w, int h, uint64_t cs, Bytes& out)
{
    out.clear();
    Schedule s;
    Channel* ch = disk()->open_bytes(&out, true, s);
    TIFF* t = open_tiff_client(ch, "w");
    if (!t) return false;
    Rng r(cs);
    bool pal = v.compare(0, 3, "pal") == 0, white = v == "miniswhite8", planar = v == "rgb8planar";
    int bits = pal ? atoi(v.c_str() + 3) : 8; // pal1 pal2 pal4 pal8 pal16: index width
    TIFFSetField(t, TIFFTAG_IMAGEWIDTH, (uint32_t)w); TIFFSetField(t, TIFFTAG_IMAGELENGTH, (uint32_t)h);
    TIFFSetField(t, TIFFTAG_BITSPERSAMPLE, bits); TIFFSetField(t, TIFFTAG_SAMPLESPERPIXEL, planar ? 3 : 1);
    TIFFSetField(t, TIFFTAG_PLANARCONFIG, planar ? PLANARCONFIG_SEPARATE : PLANARCONFIG_CONTIG); TIFFSetField(t, TIFFTAG_ROWSPERSTRIP, (uint32_t)h);
    TIFFSetField(t, TIFFTAG_PHOTOMETRIC, planar ? PHOTOMETRIC_RGB : pal ? PHOTOMETRIC_PALETTE : white ? PHOTOMETRIC_MINISWHITE : PHOTOMETRIC_MINISBLACK);
    // tags gil's read_header insists on (it does not use libtiff's defaults for them)
    TIFFSetField(t, TIFFTAG_COMPRESSION, COMPRESSION_NONE); TIFFSetField(t, TIFFTAG_SAMPLEFORMAT, SAMPLEFORMAT_UINT);
    TIFFSetField(t, TIFFTAG_RESOLUTIONUNIT, RESUNIT_NONE); TIFFSetField(t, TIFFTAG_XRESOLUTION, 1.0); TIFFSetField(t, TIFFTAG_YRESOLUTION, 1.0);
    TIFFSetField(t, TIFFTAG_ORIENTATION, ORIENTATION_TOPLEFT);
    std::vector<uint16_t> cr((size_t)1 << bits), cg((size_t)1 << bits), cb((size_t)1 << bits);
    if (pal) { for (size_t i = 0; i < cr.size(); ++i) { cr[i] = (uint16_t)r.below(65536); cg[i] = (uint16_t)r.below(65536); cb[i] = (uint16_t)r.below(65536); } TIFFSetField(t, TIFFTAG_COLORMAP, cr.data(), cg.data(), cb.data()); }
    Bytes row(((size_t)w * (size_t)bits + 7) / 8);
    for (int pl = 0; pl < (planar ? 3 : 1); ++pl)
        for (int y = 0; y < h; ++y) { for (auto& b : row) b = (unsigned char)r.below(256); TIFFWriteScanline(t, row.data(), (uint32_t)y, (uint16_t)pl); }
    TIFFClose(t);
    return !out.empty();
}

bool make(std::string const& v, int w, int h, uint64_t cs, Bytes& out)
{
    out.clear();
    info_t i = opts(v);
    std::string base = v.substr(0, v.find('_'));
    if (base == "gray1") return write_tiff<gil::gray1_image_t>(w, h, cs, out, i);
    if (base == "gray2") return write_tiff<gil::gray2_image_t>(w, h, cs, out, i);
    if (base == "gray4") return write_tiff<gil::gray4_image_t>(w, h, cs, out, i);
    if (base == "gray8") return write_tiff<gil::gray8_image_t>(w, h, cs, out, i);
    if (base == "gray16") return write_tiff<gil::gray16_image_t>(w, h, cs, out, i);
    if (base == "gray32f") return write_tiff<gil::gray32f_image_t>(w, h, cs, out, i);
    if (base == "rgb8") return write_tiff<gil::rgb8_image_t>(w, h, cs, out, i);
    if (base == "rgb16") return write_tiff<gil::rgb16_image_t>(w, h, cs, out, i);
    if (base == "rgba8") return write_tiff<gil::rgba8_image_t>(w, h, cs, out, i);
    if (base == "rgba16") return write_tiff<gil::rgba16_image_t>(w, h, cs, out, i);
    if (base == "cmyk8") return write_tiff<gil::cmyk8_image_t>(w, h, cs, out, i);
    if (base.compare(0, 3, "pal") == 0 || base == "miniswhite8" || base == "rgb8planar") return make_libtiff(base, w, h, cs, out);
    return false;
}

std::vector<Variant> const& g_fmt_variants()
{
    static std::vector<Variant> const v = {{"gray1", "gray1"}, {"gray1_tile", "gray1"}, {"gray2", "gray2"}, {"gray4", "gray4"}, {"gray8", "gray8"}, {"gray8_lzw", "gray8"}, {"gray8_tile", "gray8"},
                  {"gray16_deflate", "gray16"}, {"gray32f", "gray32f"}, {"rgb8", "rgb8"}, {"rgb8_tile", "rgb8"}, {"rgb8_lzw", "rgb8"}, {"rgb8_packbits", "rgb8"},
                  {"rgb8planar", "rgb8"}, {"rgb16", "rgb16"}, {"rgba8", "rgba8"}, {"rgba8_tile_lzw", "rgba8"}, {"rgba16", "rgba16"}, {"cmyk8", "cmyk8"},
                  {"pal8", "rgb16"}, {"miniswhite8", "gray8"}, {"pal1", "rgb16"}, {"pal2", "rgb16"}, {"pal4", "rgb16"}, {"pal16", "rgb16"}};
    return v;
}

using any_t = gil::any_image<gil::gray8_image_t, gil::gray16_image_t, gil::rgb8_image_t, gil::rgba8_image_t, gil::rgb16_image_t>;

Outcome read(ReadSpec const& s, Bytes& b)
{
    char const* ext = "tif";
    if (s.entry == "info") return R::info(s, b, ext);
    if (s.entry == "any") return R::any<any_t>(s, b, ext);
    if (s.entry == "rci" || s.entry == "rcv")
    {
        if (s.type == "gray8") return R::convert_entry<gil::gray8_image_t>(s, b, ext);
        if (s.type == "rgb8") return R::convert_entry<gil::rgb8_image_t>(s, b, ext);
        if (s.type == "rgba8") return R::convert_entry<gil::rgba8_image_t>(s, b, ext);
    }
    else
    {
        if (s.type == "gray1") return R::native_entry<gil::gray1_image_t>(s, b, ext);
        if (s.type == "gray2") return R::native_entry<gil::gray2_image_t>(s, b, ext);
        if (s.type == "gray4") return R::native_entry<gil::gray4_image_t>(s, b, ext);
        if (s.type == "gray8") return R::native_entry<gil::gray8_image_t>(s, b, ext);
        if (s.type == "gray16") return R::native_entry<gil::gray16_image_t>(s, b, ext);
        if (s.type == "gray32f") return R::native_entry<gil::gray32f_image_t>(s, b, ext);
        if (s.type == "rgb8") return R::native_entry<gil::rgb8_image_t>(s, b, ext);
        if (s.type == "rgb16") return R::native_entry<gil::rgb16_image_t>(s, b, ext);
        if (s.type == "rgba8") return R::native_entry<gil::rgba8_image_t>(s, b, ext);
        if (s.type == "rgba16") return R::native_entry<gil::rgba16_image_t>(s, b, ext);
        if (s.type == "cmyk8") return R::native_entry<gil::cmyk8_image_t>(s, b, ext);
    }
    Outcome o; o.cls = "skipped:type"; return o;
}

// IFD walk (classic little-endian TIFF as written by libtiff on this host)
std::vector<Field> fields(Bytes const& b)
{
    std::vector<Field> f = {{"byteorder", 0, 2, false}, {"magic", 2, 2, false}, {"ifd0", 4, 4, false}};
    if (b.size() < 8 || b[0] != 'I') return f;
    uint32_t ifd = get32le(b, 4);
    if ((size_t)ifd + 2 > b.size()) return f;
    unsigned n = get16le(b, ifd);
    f.push_back({"ifd_count", ifd, 2, false});
    for (unsigned i = 0; i < n && i < 40; ++i)
    {
        size_t e = (size_t)ifd + 2 + 12 * (size_t)i;
        if (e + 12 > b.size()) break;
        unsigned tag = get16le(b, e);
        std::string nm = "t" + std::to_string(tag);
        f.push_back({nm + "_type", e + 2, 2, false}); f.push_back({nm + "_count", e + 4, 4, false}); f.push_back({nm + "_value", e + 8, 4, false});
        f.push_back({nm + "_value16", e + 8, 2, false});
    }
    return f;
}
long declared(Bytes const& b)
{
    long w = -1, h = -1;
    for (auto const& fd : fields(b))
    {
        if (fd.name == "t256_value") w = (long)get32le(b, fd.off);
        if (fd.name == "t257_value") h = (long)get32le(b, fd.off);
    }
    if (w < 0 || h < 0 || w > (1 << 24) || h > (1 << 24)) return -1;
    return w * h;
}

Outcome roundtrip(Json const& plan)
{
    std::string v = plan.str("variant");
    info_t info;
    for (auto const& o : plan.at("opts").a)
    {
        if (o.s == "lzw") info._compression = COMPRESSION_LZW;
        if (o.s == "deflate") info._compression = COMPRESSION_ADOBE_DEFLATE;
        if (o.s == "packbits") info._compression = COMPRESSION_PACKBITS;
        if (o.s == "tile") { info._is_tiled = true; info._tile_width = 16; info._tile_length = 16; }
        if (o.s == "tile32") { info._is_tiled = true; info._tile_width = 32; info._tile_length = 16; }
    }
    if (v == "gray1") return RoundTrip<Tag, gil::gray1_image_t, false, false, 0x7u>::run(plan, "tif", info);
    if (v == "gray2") return RoundTrip<Tag, gil::gray2_image_t, false, false, 0x7u>::run(plan, "tif", info);
    if (v == "gray4") return RoundTrip<Tag, gil::gray4_image_t, false, false, 0x7u>::run(plan, "tif", info);
    if (v == "gray8") return RoundTrip<Tag, gil::gray8_image_t, false>::run(plan, "tif", info);
    if (v == "gray16") return RoundTrip<Tag, gil::gray16_image_t, false>::run(plan, "tif", info);
    if (v == "gray32f") return RoundTrip<Tag, gil::gray32f_image_t, false>::run(plan, "tif", info);
    if (v == "rgb8") return RoundTrip<Tag, gil::rgb8_image_t, true>::run(plan, "tif", info);
    if (v == "rgb16") return RoundTrip<Tag, gil::rgb16_image_t, true>::run(plan, "tif", info);
    if (v == "rgba8") return RoundTrip<Tag, gil::rgba8_image_t, true>::run(plan, "tif", info);
    if (v == "cmyk8") return RoundTrip<Tag, gil::cmyk8_image_t, true>::run(plan, "tif", info);
    if (v == "bgr8") return RoundTrip<Tag, gil::bgr8_image_t, true>::run(plan, "tif", info);
    Outcome o; o.cls = "skipped:type"; return o;
}

template <class Native> Outcome paths_for(Json const& plan, Bytes& bytes, PathsCfg const& cfg)
{
    static char const* const names[] = {"gray8", "rgb8", "rgba8"};
    return PathsFor<Tag, Native, any_t, Native, gil::gray8_pixel_t, gil::rgb8_pixel_t, gil::rgba8_pixel_t>::run(plan, bytes, "tif", cfg, names);
}

Outcome paths(Json const& plan)
{
    std::string v = plan.str("variant");
    Bytes bytes;
    if (!make(v, (int)plan.num("w", 1), (int)plan.num("h", 1), (uint64_t)plan.num("cseed"), bytes)) { Outcome o; o.cls = "skipped:variant"; return o; }
    PathsCfg cfg;
    // tiff/detail/scanline_read.hpp: tiled images, planar images ("scanline_reader doesn't support planar tiff images.")
    cfg.scan_refused = v.find("_tile") != std::string::npos || v == "rgb8planar";
    // tiff/detail/read.hpp read_palette_image: "User supplied image type must be rgb16_image_t."
    cfg.convert_refused = v.compare(0, 3, "pal") == 0;
    cfg.stepped_view_refused = cfg.convert_refused; // same check: the destination must be exactly rgb16_view_t
    std::string native;
    for (auto const& x : g_fmt_variants()) if (x.name == v) native = x.native;
    cfg.any_ok = native == "gray8" || native == "gray16" || native == "rgb8" || native == "rgba8" || native == "rgb16";
    if (native == "gray1") return paths_for<gil::gray1_image_t>(plan, bytes, cfg);
    if (native == "gray2") return paths_for<gil::gray2_image_t>(plan, bytes, cfg);
    if (native == "gray4") return paths_for<gil::gray4_image_t>(plan, bytes, cfg);
    if (native == "gray8") return paths_for<gil::gray8_image_t>(plan, bytes, cfg);
    if (native == "gray16") return paths_for<gil::gray16_image_t>(plan, bytes, cfg);
    if (native == "gray32f") return paths_for<gil::gray32f_image_t>(plan, bytes, cfg);
    if (native == "rgb8") return paths_for<gil::rgb8_image_t>(plan, bytes, cfg);
    if (native == "rgb16") return paths_for<gil::rgb16_image_t>(plan, bytes, cfg);
    if (native == "rgba8") return paths_for<gil::rgba8_image_t>(plan, bytes, cfg);
    if (native == "rgba16") return paths_for<gil::rgba16_image_t>(plan, bytes, cfg);
    if (native == "cmyk8") return paths_for<gil::cmyk8_image_t>(plan, bytes, cfg);
    Outcome o; o.cls = "skipped:variant"; return o;
}

Format make_format()
{
    Format f;
    f.name = "tiff"; f.ext = "tif";
    f.variants = g_fmt_variants();
    f.native_types = {"gray1", "gray2", "rgba16", "gray4", "gray8", "gray16", "gray32f", "rgb8", "rgb16", "rgba8", "cmyk8"};
    f.convert_types = {"gray8", "rgb8", "rgba8"};
    f.devices = {"TIFF", "istream", "name"};
    f.write_types = {"gray1", "gray2", "gray4", "gray8", "gray16", "gray32f", "rgb8", "rgb16", "rgba8", "cmyk8", "bgr8"};
    f.write_options = {"lzw", "deflate", "packbits", "tile", "tile32"};
    f.roundtrip = roundtrip; f.paths = paths;
    f.make = make; f.read = read; f.fields = fields; f.declared_pixels = declared;
    return f;
}
Format g_fmt = make_format();
struct Reg { Reg() { formats().push_back(&g_fmt); } } g_reg;

} // namespace
} // namespace sim
