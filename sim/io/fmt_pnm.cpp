// PNM: gil writer (binary P4/P5/P6) + harness encoders for ASCII P1/P2/P3 with comments.
#include "iosim.hpp"
#include "fmt_common.hpp"
#include "iosim_rt.hpp"
#include <boost/gil/extension/io/pnm.hpp>

namespace sim {
namespace {

using Tag = gil::pnm_tag;
using R = Reader<Tag>;
using gray1_t = gil::gray1_image_t;

void puts_(Bytes& b, std::string const& s) { b.insert(b.end(), s.begin(), s.end()); }

bool make_ascii(std::string const& v, int w, int h, uint64_t cs, Bytes& b)
{
    int type = v.find("p1") == 0 ? 1 : v.find("p2") == 0 ? 2 : 3;
    bool comments = v.find("c") == 2, dense = v.find("d") == 2;
    Rng r(cs);
    puts_(b, "P" + std::to_string(type) + "\n");
    if (comments) puts_(b, "# a comment line\n");
    puts_(b, std::to_string(w) + (comments ? " #c\n" : " ") + std::to_string(h) + "\n");
    int maxv = type == 1 ? 1 : (int)r.pick({255, 255, 15, 1, 200});
    if (type != 1) puts_(b, std::to_string(maxv) + "\n");
    int ch = type == 3 ? 3 : 1;
    for (int y = 0; y < h; ++y)
    {
        for (int x = 0; x < w * ch; ++x)
        {
            puts_(b, std::to_string(r.below((uint64_t)maxv + 1)));
            if (type == 1 && (dense || r.chance(1, 2))) continue; // P1 samples need no separator
            puts_(b, r.chance(1, 8) ? "\n" : " ");
        }
        puts_(b, "\n");
    }
    return true;
}

bool make(std::string const& v, int w, int h, uint64_t cs, Bytes& out)
{
    out.clear();
    if (v == "gray1") return write_with_gil<gray1_t, Tag>(w, h, cs, out, "pnm");
    if (v == "gray8") return write_with_gil<gil::gray8_image_t, Tag>(w, h, cs, out, "pnm");
    if (v == "rgb8") return write_with_gil<gil::rgb8_image_t, Tag>(w, h, cs, out, "pnm");
    return make_ascii(v, w, h, cs, out);
}

Outcome read(ReadSpec const& s, Bytes& b)
{
    char const* ext = "pnm";
    if (s.entry == "info") return R::info(s, b, ext);
    if (s.entry == "any") return R::any<gil::any_image<gray1_t, gil::gray8_image_t, gil::rgb8_image_t>>(s, b, ext);
    if (s.entry == "rci" || s.entry == "rcv")
    {
        if (s.type == "gray8") return R::convert_entry<gil::gray8_image_t>(s, b, ext);
        if (s.type == "rgb8") return R::convert_entry<gil::rgb8_image_t>(s, b, ext);
        if (s.type == "rgba8") return R::convert_entry<gil::rgba8_image_t>(s, b, ext);
    }
    else
    {
        if (s.type == "gray1") return R::native_entry<gray1_t>(s, b, ext);
        if (s.type == "gray8") return R::native_entry<gil::gray8_image_t>(s, b, ext);
        if (s.type == "rgb8") return R::native_entry<gil::rgb8_image_t>(s, b, ext);
    }
    Outcome o; o.cls = "skipped:type"; return o;
}

// textual header: fields are byte positions of the first characters of the tokens
std::vector<Field> fields(Bytes const& b)
{
    std::vector<Field> f = {{"magic", 0, 1, false}, {"type", 1, 1, false}};
    size_t i = 2; int tok = 0;
    char const* names[] = {"width", "height", "maxval"};
    while (i < b.size() && tok < 3)
    {
        while (i < b.size() && (b[i] == ' ' || b[i] == '\n' || b[i] == '\t' || b[i] == '\r')) ++i;
        if (i < b.size() && b[i] == '#') { while (i < b.size() && b[i] != '\n') ++i; continue; }
        if (i >= b.size()) break;
        size_t st = i;
        while (i < b.size() && b[i] >= '0' && b[i] <= '9') ++i;
        if (i == st) break;
        f.push_back({names[tok], st, (int)std::min<size_t>(i - st, 4), true});
        ++tok;
    }
    return f;
}
long declared(Bytes const& b)
{
    auto f = fields(b);
    long w = -1, h = -1;
    for (auto const& fd : f)
    {
        if (fd.name != "width" && fd.name != "height") continue;
        long v = 0; size_t i = fd.off;
        while (i < b.size() && b[i] >= '0' && b[i] <= '9' && v < (1 << 24)) v = v * 10 + (b[i++] - '0');
        (fd.name == "width" ? w : h) = v;
    }
    if (w < 0 || h < 0 || w > (1 << 24) || h > (1 << 24)) return -1;
    return w * h;
}

Outcome roundtrip(Json const& plan)
{
    std::string v = plan.str("variant");
    gil::image_write_info<Tag> info;
    // the gray1 writer accepts exactly gray1_image_t::view_t (static_assert): whole image or sub-view
    if (v == "gray1") return RoundTrip<Tag, gray1_t, false, false, 0x3u>::run(plan, "pnm", info);
    if (v == "gray8") return RoundTrip<Tag, gil::gray8_image_t, false>::run(plan, "pnm", info);
    if (v == "rgb8") return RoundTrip<Tag, gil::rgb8_image_t, true>::run(plan, "pnm", info);
    if (v == "bgr8") return RoundTrip<Tag, gil::bgr8_image_t, true>::run(plan, "pnm", info);
    Outcome o; o.cls = "skipped:type"; return o;
}

Outcome paths(Json const& plan)
{
    std::string v = plan.str("variant");
    Bytes bytes;
    if (!make(v, (int)plan.num("w", 1), (int)plan.num("h", 1), (uint64_t)plan.num("cseed"), bytes)) { Outcome o; o.cls = "skipped:variant"; return o; }
    using any_t = gil::any_image<gray1_t, gil::gray8_image_t, gil::rgb8_image_t>;
    static char const* const names[] = {"gray8", "rgb8", "rgba8"};
    using P3 = gil::gray8_pixel_t; using P4 = gil::rgb8_pixel_t; using P5 = gil::rgba8_pixel_t;
    PathsCfg cfg;
    cfg.scan_skip_seeks = true;
    // plain PBM (P1) is read as gray8 (pnm/detail/is_allowed.hpp: "ascii mono images are read gray8_image_t")
    if (v == "p1" || v == "p1c" || v == "p1d") return PathsFor<Tag, gil::gray8_image_t, any_t, gil::gray8_image_t, P3, P4, P5>::run(plan, bytes, "pnm", cfg, names);
    if (v == "gray1") return PathsFor<Tag, gray1_t, any_t, gray1_t, P3, P4, P5>::run(plan, bytes, "pnm", cfg, names);
    if (v == "gray8" || v == "p2" || v == "p2c") return PathsFor<Tag, gil::gray8_image_t, any_t, gil::gray8_image_t, P3, P4, P5>::run(plan, bytes, "pnm", cfg, names);
    return PathsFor<Tag, gil::rgb8_image_t, any_t, gil::rgb8_image_t, P3, P4, P5>::run(plan, bytes, "pnm", cfg, names);
}

Format make_format()
{
    Format f;
    f.name = "pnm"; f.ext = "pnm";
    f.variants = {{"gray1", "gray1"}, {"gray8", "gray8"}, {"rgb8", "rgb8"}, {"p1", "gray8"}, {"p2", "gray8"}, {"p3", "rgb8"}, {"p1c", "gray8"}, {"p2c", "gray8"}, {"p3c", "rgb8"}, {"p1d", "gray8"}};
    f.native_types = {"gray1", "gray8", "rgb8"};
    f.convert_types = {"gray8", "rgb8", "rgba8"};
    f.devices = {"FILE", "istream", "name"};
    f.write_types = {"gray1", "gray8", "rgb8", "bgr8"};
    f.roundtrip = roundtrip; f.paths = paths;
    f.make = make; f.read = read; f.fields = fields; f.declared_pixels = declared;
    return f;
}
Format g_fmt = make_format();
struct Reg { Reg() { formats().push_back(&g_fmt); } } g_reg;

} // namespace
} // namespace sim
