// Link-time seams: fopen / TIFFOpen redirected to the simulated disk for names that start with "sim:";
// TIFFClientOpen procs over a Channel; replaced global operator new/delete with byte cap and poison fill.
#include "devices.hpp"
#include <tiffio.h>
#include <cstdlib>
#include <new>

extern "C" FILE* __real_fopen(char const* name, char const* mode);
extern "C" TIFF* __real_TIFFOpen(char const* name, char const* mode);

namespace sim {

// libtiff expects its read procedure to deliver the full count unless the file ends (its own unix procedure loops over
// read(2)); short deliveries of the device are therefore absorbed here, each one still being a device step
static tmsize_t tf_read(thandle_t h, void* buf, tmsize_t n)
{
    tmsize_t got = 0;
    while (got < n)
    {
        long r = ((Channel*)h)->read((char*)buf + got, (size_t)(n - got));
        if (r < 0) return (tmsize_t)-1;
        if (r == 0) break;
        got += r;
    }
    return got;
}
static tmsize_t tf_write(thandle_t h, void* buf, tmsize_t n) { long r = ((Channel*)h)->write(buf, (size_t)n); return r < 0 ? (tmsize_t)-1 : (tmsize_t)r; }
static toff_t tf_seek(thandle_t h, toff_t off, int whence)
{
    long long r = ((Channel*)h)->seek((long long)off, whence);
    return r < 0 ? (toff_t)-1 : (toff_t)r;
}
static int tf_close(thandle_t h) { ((Channel*)h)->closed = true; if (io_ctx()) ++io_ctx()->closes; return 0; }
static toff_t tf_size(thandle_t h) { return (toff_t)((Channel*)h)->data->size(); }
static int tf_map(thandle_t, void**, toff_t*) { return 0; }
static void tf_unmap(thandle_t, void*, toff_t) {}

TIFF* open_tiff_client(Channel* ch, char const* mode)
{
    return TIFFClientOpen("sim", mode, (thandle_t)ch, tf_read, tf_write, tf_seek, tf_close, tf_size, tf_map, tf_unmap);
}

static void quiet_tiff(char const*, char const*, va_list) {}
void silence_libtiff()
{
    TIFFSetErrorHandler(quiet_tiff);
    TIFFSetWarningHandler(quiet_tiff);
}

// ---- operator new cap + poison
size_t g_new_cap = (size_t)4 << 20;
unsigned char g_new_poison = 0;
long g_new_calls = 0, g_new_refused = 0;

} // namespace sim

extern "C" FILE* __wrap_fopen(char const* name, char const* mode)
{
    if (name && !strncmp(name, "sim:", 4) && sim::disk())
    {
        bool wr = mode && (mode[0] == 'w');
        sim::Channel* ch = sim::disk()->open(name, wr, !wr);
        if (!ch) { errno = ENOENT; return nullptr; }
        return sim::open_cookie(ch, wr ? "wb" : "rb", sim::disk()->stdio_bufsz);
    }
    return __real_fopen(name, mode);
}

extern "C" TIFF* __wrap_TIFFOpen(char const* name, char const* mode)
{
    if (name && !strncmp(name, "sim:", 4) && sim::disk())
    {
        bool wr = mode && (mode[0] == 'w');
        sim::Channel* ch = sim::disk()->open(name, wr, !wr);
        if (!ch) return nullptr;
        return sim::open_tiff_client(ch, mode);
    }
    return __real_TIFFOpen(name, mode);
}

static void* sim_new(std::size_t n)
{
    ++sim::g_new_calls;
    if (n > sim::g_new_cap) { ++sim::g_new_refused; throw std::bad_alloc(); }
    void* p = std::malloc(n ? n : 1);
    if (!p) throw std::bad_alloc();
#ifndef SIM_NO_POISON_FILL
    std::memset(p, sim::g_new_poison, n);
#endif
    return p;
}
void* operator new(std::size_t n) { return sim_new(n); }
void* operator new[](std::size_t n) { return sim_new(n); }
void* operator new(std::size_t n, std::nothrow_t const&) noexcept { try { return sim_new(n); } catch (...) { return nullptr; } }
void* operator new[](std::size_t n, std::nothrow_t const&) noexcept { try { return sim_new(n); } catch (...) { return nullptr; } }
void operator delete(void* p) noexcept { std::free(p); }
void operator delete[](void* p) noexcept { std::free(p); }
void operator delete(void* p, std::size_t) noexcept { std::free(p); }
void operator delete[](void* p, std::size_t) noexcept { std::free(p); }
