#!/usr/bin/env python3
# summarise non-ok R lines from a worker's stdout (diagnosis helper)
import sys,json,collections
c=collections.Counter(); ex={}
for l in sys.stdin:
    if not l.startswith('R '): continue
    try: r=json.loads(l[2:])
    except ValueError: continue
    if r['cls']=='ok' or r['cls'].startswith('skipped'): continue
    k=(r['cls'],r['cfg']); c[k]+=1; ex.setdefault(k,(r.get('i'),r.get('what','')[:170]))
for k,n in sorted(c.items()): print(n,k[0],k[1],ex[k])
