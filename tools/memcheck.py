"""C01 / C10 driver over the memsim engines (c++14 and c++17 builds)."""
import json, os, sys, time, hashlib
import simlib
from simlib import log

BIN = {14: os.path.join(simlib.BUILD, 'bin', 'memsim14'), 17: os.path.join(simlib.BUILD, 'bin', 'memsim17')}
C10_CLASSES = ('ledger:', 'lifetime:', 'model:', 'guard:use-after-free', 'asan:heap-use-after-free', 'asan:double-free',
               'asan:attempting-double-free', 'asan:bad-free', 'watchdog:')


def prop_of(cls, v=None, profile=None):
    """Fixed attribution (DESIGN 2.7).  Ledger/lifetime/model/use-after-free classes are C10.  A bounds class (guard, asan
    overflow, canary, segv) is C01 - except in a C10 history when the failing access is made inside a member function of
    image/any_image (constructor, assignment, recreate, swap ...): then the container protocol itself used storage it does
    not own ("an image owns exactly one live allocation of the size it recorded", "the target still holds a valid image"),
    which is what C10 states, and the history is what brought it there."""
    for p in C10_CLASSES:
        if cls.startswith(p):
            return 'C10'
    if profile == 'c10' and v is not None and v.get('in_image_member'):
        return 'C10'
    return 'C01'


TIERS = {
    # histories per binary
    ('C10', 'quick'): dict(n14=5000, n17=3000, chunk=25, maxfaults=250),
    ('C10', 'thorough'): dict(n14=90000, n17=60000, chunk=100, maxfaults=400),
    ('C01', 'quick'): dict(n14=20000, n17=5000, chunk=250, maxfaults=0),
    ('C01', 'thorough'): dict(n14=600000, n17=150000, chunk=500, maxfaults=0),
}


def config_of(plan):
    return 'image<%s>/%s/c++%s' % (plan.get('kind'), plan.get('alloc'), plan.get('std'))


def gen_plan(std, profile, seed, i, sub, maxfaults):
    import subprocess
    p = subprocess.run([BIN[std], '--gen', str(i), '--sub', str(sub), '--profile', profile, '--seed', str(seed),
                        '--maxfaults', str(maxfaults)], stdout=subprocess.PIPE, stderr=subprocess.PIPE, text=True, timeout=120)
    for ln in p.stdout.splitlines():
        if ln.startswith('{'):
            return json.loads(ln)
    return None


def build_or_report(prop):
    ok, failed, text = simlib.build(['mem'])
    if ok:
        return None
    # a TU that compiled on the unchanged tree no longer compiles: operations cannot be instantiated (DESIGN 2.2)
    repo_related = '/repo/include/boost/gil' in text or any('/mem1' in f for f in failed)
    logs = []
    for f in failed:
        try:
            logs.append(open(os.path.join(simlib.VERIF, f + '.log')).read()[:4000])
        except OSError:
            pass
    if not failed or not any('/repo/include' in l for l in logs):
        log(text[-3000:])
        print('BUILD-ERROR: harness failed to build for reasons not attributable to /repo')
        return 2
    doc = dict(engine='memsim', property=prop, kind='build', signature='%s|build|build:uninstantiable|%s' % (prop, ','.join(sorted(failed))),
               failed=failed, command='make -C /verif -k mem', log=logs[0][:3000])
    path = simlib.save_replay(prop, doc['signature'], doc)
    print('build:uninstantiable %s' % ','.join(failed))
    print('VIOLATION property=%s replay=%s' % (prop, path))
    return 1


def check(a):
    prop, tier, seed = a.prop, a.tier, a.seed
    t0 = time.time()
    rc = build_or_report(prop)
    if rc is not None:
        if rc == 1:
            simlib.write_evidence(prop, tier, seed, 'fault_enumeration' if prop == 'C10' else 'exploration',
                                  dict(evaluations=1, distinct_nontrivial=0, rule='build failed', samples=['build failure']), time.time() - t0, 1, [])
        return rc
    cfg = dict(TIERS[(prop, tier)])
    profile = 'c10' if prop == 'C10' else 'c01'
    known = simlib.load_known()
    import shutil
    shutil.rmtree(os.path.join(simlib.REPLAYS, prop), ignore_errors=True)  # replay files of this run only
    pools = {}
    deadline = t0 + (900 if tier == 'quick' else 6 * 3600)
    for std in (14, 17):
        n = int(cfg['n%d' % std] * a.scale)
        if n <= 0:
            continue
        args = ['--profile', profile, '--seed', str(seed), '--maxfaults', str(cfg['maxfaults'])]
        pools[std] = simlib.WorkerPool(BIN[std], args, n, cfg['chunk'], workers=a.workers, deadline=deadline).run()
    # ---- collect candidates
    cands = []  # (std, plan, violation, origin)
    other = {}
    totals = dict(histories=0, subruns=0, points=0, fired_alloc=0, fired_elem=0, threw=0, reuse_checked=0, reuse_hits=0,
                  align_checked=0, eq_checked=0, sweep_pixels=0, sweep_accessors=0, sweep_views=0, allocs=0)
    hashes, traces, abstracts, nontrivial = set(), set(), set(), set()
    per_kind = {}
    samples = []
    for std, pool in pools.items():
        for r in pool.results:
            totals['histories'] += 1
            totals['subruns'] += r['sub']
            for k in ('points', 'fired_alloc', 'fired_elem', 'threw', 'reuse_checked', 'reuse_hits', 'align_checked', 'eq_checked',
                      'sweep_pixels', 'sweep_accessors', 'sweep_views', 'allocs'):
                totals[k] += r.get(k, 0)
            key = '%d:%s' % (std, r['hash'])
            hashes.add(key)
            traces.add('%d:%s' % (std, r['trace']))
            abstracts.add('%s/%s/%d/%s' % (r['kind'], r['alloc'], std, r.get('abstract', '')))
            if r['nops'] >= 2 and (r['fired_alloc'] + r['fired_elem'] >= 1 or r.get('sweep_views', 0) >= 1 or r['allocs'] >= 2):
                nontrivial.add(key)
            pk = per_kind.setdefault('%s/%s/c++%d' % (r['kind'], r['alloc'], std), 0)
            per_kind['%s/%s/c++%d' % (r['kind'], r['alloc'], std)] = pk + 1
            if 'violation' in r:
                cands.append((std, r['plan'], r['violation'], 'in-process i=%d' % r['i']))
        for d in pool.deaths:
            plan = gen_plan(std, profile, seed, d['i'], d['sub'], cfg['maxfaults'])
            v = simlib.classify_stderr(d['stderr'])
            if d.get('timeout'):
                v = dict(cls='watchdog:timeout', site='wall-clock', detail='worker made no progress')
            if v is None:
                v = dict(cls='exit:%d' % d['rc'], site='unknown', detail=d['stderr'][-300:])
            cands.append((std, plan, v, 'worker-death i=%d sub=%d' % (d['i'], d['sub'])))
    for std in pools:
        p = gen_plan(std, profile, seed, 0, 0, cfg['maxfaults'])
        if p:
            p['ops'] = p['ops'][:6]
            samples.append(p)
    # ---- triage
    seen_sig = {}
    violations, known_hit, exit2 = [], {}, False
    for std, plan, v, origin in cands:
        vp = prop_of(v['cls'], v, profile)
        cfgs = config_of(plan) if plan else 'unknown'
        sig = '%s|%s|%s' % (vp, v['cls'], v['site'])
        if vp != prop:
            other[sig] = other.get(sig, 0) + 1
            continue
        if sig in seen_sig:
            seen_sig[sig]['count'] += 1
            if len(seen_sig[sig]['members']) < 40:
                seen_sig[sig]['members'].append(dict(count=1, std=std, plan=plan, v=v, origin=origin, config=cfgs))
            continue
        ent = dict(count=1, std=std, plan=plan, v=v, origin=origin, config=cfgs, members=[])
        seen_sig[sig] = ent
    processed = 0
    for sig, ent in sorted(seen_sig.items()):
        k = simlib.match_known(known, prop, ent['config'], ent['v'])
        if k is not None:
            known_hit[k['id']] = known_hit.get(k['id'], 0) + ent['count']
            continue
        if processed >= 30:
            log('more distinct violations than processed; skipping minimisation of', sig)
            violations.append((sig, None))
            continue
        processed += 1
        res = triage(prop, ent, known)
        if res == 'flaky':
            exit2 = True
        elif isinstance(res, tuple) and res[0] == 'known':
            known_hit[res[1]] = known_hit.get(res[1], 0) + ent['count']
            # known through a predicate over the minimised plan: also look at a few members with other configurations,
            # a different defect with the same class and site must not hide behind the representative
            seen_cfg, extra = {ent['config']}, 0
            for m in ent['members']:
                if m['config'] in seen_cfg or extra >= 3:
                    continue
                seen_cfg.add(m['config']); extra += 1
                r2 = triage(prop, m, known)
                if r2 == 'flaky':
                    exit2 = True
                elif not isinstance(r2, tuple):
                    violations.append((sig, r2))
        else:
            violations.append((sig, res))
            log('violation group %s: %d occurrences in this run' % (sig, ent['count']))
    wall = time.time() - t0
    # ---- evidence
    level = 'fault_enumeration' if prop == 'C10' else 'exploration'
    cov = dict(
        evaluations=totals['subruns'], distinct_nontrivial=len(nontrivial),
        rule=('histories are generated from splitmix64(VERIF_SEED, index); C10: each history is executed fault-free and then once per '
              'fault point (every allocation and every element construction/copy/assignment counted in the fault-free run, capped and '
              'stratified at maxfaults per history); C01: fault-free plus two seeded allocation faults. evaluations = executed runs '
              '(fault-free + faulted). distinct_nontrivial = histories with a distinct combined result/trace hash that have >= 2 ops and '
              '(>= 1 injected fault that fired, or >= 1 swept view, or >= 2 allocations)'),
        samples=samples, histories=totals['histories'], fault_points_enumerated=totals['points'],
        faults_fired=dict(alloc_failure=totals['fired_alloc'], element_ctor_copy_assign_throw=totals['fired_elem']),
        operations_that_threw=totals['threw'], distinct_traces=len(traces), distinct_abstract_states=len(abstracts),
        runs_per_hour=int(totals['subruns'] / max(wall, 1e-3) * 3600), seeds=dict(base=seed, indices=totals['histories']),
        simulated_time='n/a (no clocks in gil); allocator calls served: %d' % totals['allocs'],
        oracle_checks=dict(recreate_reuse_decisions=totals['reuse_checked'], reuse_expected_no_alloc=totals['reuse_hits'],
                           row_alignment=totals['align_checked'], copy_equals_source=totals['eq_checked'],
                           swept_views=totals['sweep_views'], swept_pixels=totals['sweep_pixels'], accessor_families_run=totals['sweep_accessors']),
        configurations=per_kind,
        components=dict(real=['boost::gil::image and everything it instantiates (algorithm.hpp, locator/iterator/view headers)', 'libstdc++'],
                        stubbed=['allocator (sim::Alloc over guard arena with ledger)', 'element type sim::Tracked for the non-pixel image kind']),
        known_findings_hit=known_hit, other_property_classes_seen=other,
        skipped_chunks_at_deadline=sum(p.skipped_chunks for p in pools.values()))
    simlib.write_evidence(prop, tier, seed, level, cov, wall, len(violations),
                          ['ASan/UBSan (gcc 12) and the guard arena observe every access to image storage made from instrumented code',
                           'blocks start at 16k+res (res 0 for 3 of 4 allocations, else 0..15); every row alignment in {0..8,12,16,24,32,64} is requested for every kind, so 16/32-bit channels are also accessed misaligned: the engines are built without -fsanitize=alignment (x86 tolerates it, no property forbids it)',
                           'swap of unequal non-propagating allocators is a precondition violation and is not generated'])
    known_hit.pop('__starved__', None)
    for kid, n in sorted(known_hit.items()):
        k = [x for x in known if x['id'] == kid][0]
        print('KNOWN-FINDING: property=%s %s (%d occurrences)' % (prop, k['what'], n))
    for sig, path in violations:
        print('VIOLATION property=%s replay=%s' % (prop, path or 'unminimised:' + sig))
    log('%s %s: %d histories, %d runs, %d fault points, %.1fs, %d violations, other-property: %s' %
        (prop, tier, totals['histories'], totals['subruns'], totals['points'], wall, len(violations), other))
    if exit2 and not violations:
        print('SIMULATOR-NONDETERMINISM: an alarm did not replay; not reported as a violation')
        return 2
    return 1 if violations else 0


def triage(prop, ent, known):
    """minimise + gate; returns replay path, 'flaky', or ('known', id)"""
    std, plan, v0 = ent['std'], ent['plan'], ent['v']
    binary = BIN[std]
    if plan is None:
        return 'flaky'
    r1 = simlib.run_replay(binary, plan)
    v1 = r1['violation']
    if v0['cls'] == 'watchdog:timeout' and v1 is None:
        log('watchdog kill did not reproduce (worker starved on a loaded machine): ignored')
        return ('known', '__starved__')
    if v0['cls'] == 'watchdog:timeout' and v1 is not None and v1['cls'] != 'watchdog:timeout':
        v0 = v1  # starved worker; alone the history ends quickly with this outcome, which is what gets judged
    if v1 is None or (v1['cls'], v1['site']) != (v0['cls'], v0['site']):
        # gate (1): must reproduce alone in a fresh process
        log('alarm did not reproduce in a fresh process:', v0, '->', v1)
        return 'flaky'

    def run_fn(p):
        return simlib.run_replay(binary, p)['violation']

    def same(v):
        return v['cls'] == v0['cls'] and v['site'] == v0['site']
    mz = simlib.Minimizer(run_fn, same, budget=300)
    small = mz.minimise(plan)
    r2 = simlib.run_replay(binary, small)
    r3 = simlib.run_replay(binary, small)
    if not (r2['violation'] and r3['violation'] and same(r2['violation']) and same(r3['violation'])):
        log('minimised plan does not replay; keeping the unminimised plan')
        small = plan
        r2 = simlib.run_replay(binary, small)
        if not (r2['violation'] and same(r2['violation'])):
            return 'flaky'
    if r2['result'] and r3['result'] and r2['result'].get('digest') != r3['result'].get('digest'):
        return 'flaky'
    v = r2['violation']
    k = simlib.match_known(known, prop, config_of(small), v, plan=small)
    if k is not None:
        return ('known', k['id'])
    sig = simlib.signature(prop, config_of(small), v)
    doc = dict(engine='memsim', property=prop, signature=sig, std=std, plan=small, violation=dict(cls=v['cls'], site=v['site'], detail=v.get('detail', '')),
               origin=ent['origin'], minimiser_runs=mz.runs, ops_before=len(plan['ops']), ops_after=len(small['ops']),
               stack=v.get('stack', [])[:12],
               how_to_replay='python3 tools/check.py --replay <this file>   (or: build/bin/memsim%d --replay <file holding .plan>)' % std)
    return simlib.save_replay(prop, sig, doc)


def replay(a, doc):
    prop = doc['property']
    if doc.get('kind') == 'build':
        rc = build_or_report(prop)
        if rc == 1:
            return 1
        print('build succeeds: violation does not reproduce')
        return 0
    rc = build_or_report(prop)
    if rc is not None:
        return rc
    r = simlib.run_replay(BIN[doc['std']], doc['plan'])
    v = r['violation']
    if v is not None and v['cls'] == doc['violation']['cls'] and v['site'] == doc['violation']['site']:
        print('reproduced: %s at %s: %s' % (v['cls'], v['site'], v.get('detail', '')))
        print('VIOLATION property=%s replay=%s' % (prop, a.replay))
        return 1
    print('did not reproduce (got %s)' % (v,))
    return 0
