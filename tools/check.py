#!/usr/bin/env python3
"""check.py <PROPERTY> [--tier quick|thorough] [--seed N] | --replay <file>
Exit 0: property held on everything explored (KNOWN-FINDING lines allowed);
exit 1: 'VIOLATION property=<id> replay=<path>'; exit 2: machinery failure (build of the harness, non-replaying alarm)."""
import argparse, json, os, sys, time
sys.path.insert(0, os.path.dirname(os.path.abspath(__file__)))
import simlib
from simlib import log


def main():
    ap = argparse.ArgumentParser()
    ap.add_argument('prop', nargs='?')
    ap.add_argument('--tier', default=os.environ.get('VERIF_TIER', 'quick'))
    ap.add_argument('--seed', type=int, default=None)
    ap.add_argument('--replay')
    ap.add_argument('--workers', type=int, default=simlib.CORES)
    ap.add_argument('--scale', type=float, default=1.0, help='multiply run counts (for experiments)')
    a = ap.parse_args()
    if a.seed is None:
        a.seed = int(os.environ.get('VERIF_SEED', '20260927'))
    if a.tier not in ('quick', 'thorough'):
        a.tier = 'quick'
    if a.replay:
        doc = json.load(open(a.replay))
        eng = doc.get('engine', 'memsim')
    else:
        if not a.prop:
            ap.error('property id required')
        eng = {'C01': 'memsim', 'C10': 'memsim', 'C11': 'iosim', 'C12': 'iosim', 'C13': 'iosim'}.get(a.prop)
        if eng is None:
            print('property %s is not claimed (see MANIFEST.json not_applicable)' % a.prop)
            return 2
    if eng == 'memsim':
        import memcheck
        return memcheck.replay(a, doc) if a.replay else memcheck.check(a)
    else:
        import iocheck
        return iocheck.replay(a, doc) if a.replay else iocheck.check(a)


if __name__ == '__main__':
    sys.exit(main())
