"""Common driver machinery: build, worker pool, classification, ddmin, replay gate, known findings, evidence.
Python 3 stdlib only.  Nothing here draws random numbers or reads clocks except for wall-time reporting/caps."""
import fcntl, fnmatch, hashlib, json, os, re, subprocess, sys, time, threading, queue, shutil

VERIF = os.path.dirname(os.path.dirname(os.path.abspath(__file__)))
BUILD = os.path.join(VERIF, 'build')
TMP = os.path.join(BUILD, 'tmp')
REPLAYS = os.path.join(VERIF, 'replays')
# seeded-change evaluations (tools/seed_eval.py, seed_regress.py) redirect their evidence so that evidence/ only ever holds runs on /repo itself
EVID = os.environ.get('VERIF_EVIDENCE_DIR') or os.path.join(VERIF, 'evidence')
CORES = min(16, os.cpu_count() or 4)


def log(*a):
    print(*a, file=sys.stderr, flush=True)


# ----------------------------------------------------------------------------------------- build
def build(targets, timeout=3600):
    """make under flock. Returns (ok, failing_object, logtext)."""
    os.makedirs(BUILD, exist_ok=True)
    with open(os.path.join(BUILD, '.lock'), 'w') as lk:
        fcntl.flock(lk, fcntl.LOCK_EX)
        extra = ['REPO=' + os.environ['VERIF_REPO']] if os.environ.get('VERIF_REPO') else []  # background sweeps on a snapshot of /repo
        p = subprocess.run(['make', '-C', VERIF, '-j%d' % CORES, '-k'] + extra + targets, stdout=subprocess.PIPE,
                           stderr=subprocess.STDOUT, text=True, timeout=timeout)
        fcntl.flock(lk, fcntl.LOCK_UN)
    if p.returncode == 0:
        return True, [], p.stdout
    failed = re.findall(r'BUILD-FAIL (\S+)', p.stdout)
    return False, failed, p.stdout


# --------------------------------------------------------------------------- classification
def strip_templates(s):
    out, depth = [], 0
    for ch in s:
        if ch == '<':
            depth += 1
        elif ch == '>':
            depth = max(0, depth - 1)
        elif depth == 0:
            out.append(ch)
    return ''.join(out)


def strip_parens(s):
    out, depth = [], 0
    for ch in s:
        if ch == '(':
            depth += 1
        elif ch == ')':
            depth = max(0, depth - 1)
        elif depth == 0:
            out.append(ch)
    return ''.join(out)


FRAME_RE = re.compile(r'^\s*#(\d+) 0x[0-9a-f]+ in (.*?) (/\S+?):(\d+)(?::\d+)?\s*$')
FRAME_NOFILE_RE = re.compile(r'^\s*#(\d+) 0x[0-9a-f]+(?: in (.*?))?\s+\((\S+)\+0x[0-9a-f]+\)\s*$')


def norm_func(fn):
    fn = strip_templates(fn)
    fn = strip_parens(fn)
    fn = fn.replace(' const', '').strip()
    # drop return type: keep last token containing '::' or the last token
    toks = fn.split(' ')
    cand = [t for t in toks if '::' in t]
    fn = cand[-1] if cand else toks[-1]
    fn = fn.replace('boost::gil::', '').replace('detail::', '')
    parts = [p for p in fn.split('::') if p]
    return '::'.join(parts[-2:])


def _frame_site(m):
    path = m.group(3)
    rel = path.split('/include/boost/gil/')[1]
    stem = rel[:-4] if rel.endswith('.hpp') else rel
    stem = stem.replace('extension/io/', 'io/').replace('/detail/', '/')
    return stem + '::' + norm_func(m.group(2))


def gil_site(stack_lines):
    """innermost frame in gil's io code if there is one, else the innermost gil frame
    -> 'stem::class::function' (no line numbers, no template arguments).  Frames that the symbolizer printed without
    file:line are recognised by their function name (boost::gil::...)."""
    first = None
    for ln in stack_lines:
        m = FRAME_RE.match(ln)
        if m:
            path = m.group(3)
            if '/include/boost/gil/' in path and not path.startswith('/usr/include'):
                if first is None:
                    first = _frame_site(m)
                if '/gil/extension/io/' in path or '/gil/io/' in path:
                    return _frame_site(m)
            continue
        m = FRAME_NOFILE_RE.match(ln)
        if m and m.group(2) and 'boost::gil::' in m.group(2) and not m.group(2).startswith('sim::') and ' sim::' not in m.group(2).split('boost::gil::')[0]:
            site = '?::' + norm_func(m.group(2))
            if first is None:
                first = site
            if re.search(r'boost::gil::(detail::)?(reader|scanline_reader|writer|reader_backend|writer_backend|dynamic_image_reader|[a-z_]*device)', m.group(2)):
                return site
    return first


def in_image_member(stack_lines):
    """True if some frame of the stack is a member function of boost::gil::image<...> or any_image<...> (constructor,
    destructor, assignment, recreate, swap, allocate_/deallocate ...): the failing access was made *by the container
    protocol itself*, on behalf of the operation history, not by a pixel accessor of a view handed to the caller."""
    for ln in stack_lines:
        m = re.search(r' in (.*)$', ln)
        if not m:
            continue
        f = m.group(1)
        if 'boost::gil::image<' not in f and 'boost::gil::any_image<' not in f:
            continue
        for _ in range(40):
            g = re.sub(r'<[^<>]*>', '', f)
            if g == f:
                break
            f = g
        if re.match(r'^(\S+ )?boost::gil::(image|any_image)::(~?\w+|operator=)\(', f):
            return True
    return False


def third_party_only(stack_lines):
    """True if no frame at all lies in gil headers (faulting stack entirely inside libpng/libtiff/...)"""
    for ln in stack_lines:
        m = FRAME_RE.match(ln)
        if m and '/include/boost/gil/' in m.group(3):
            return False
    return True


def classify_stderr(text):
    """Returns dict(cls, site, detail) or None if the stderr shows no sanitizer/guard report."""
    lines = text.splitlines()
    for i, ln in enumerate(lines):
        if ln.startswith('SIMSTEPS '):
            m = re.match(r'SIMSTEPS class=(\S+) site=(\S+) detail=(.*)', ln)
            return dict(cls=m.group(1), site=m.group(2), detail=m.group(3), stack=[])
        if ln.startswith('SIMGUARD '):
            m = re.match(r'SIMGUARD sig=(\d+) class=(\S+) site=(\S*) detail=(.*)', ln)
            stack = lines[i + 1:i + 60]
            site = gil_site(stack) or ('op:' + m.group(3))
            return dict(cls=m.group(2), site=site, detail=m.group(4), stack=stack[:30], op=m.group(3), in_image_member=in_image_member(stack))
        m = re.search(r'ERROR: AddressSanitizer: (\S+)', ln)
        if m:
            kind = m.group(1)
            rw = ''
            stack = []
            alloc_stack = []
            j = i + 1
            mode = 'access'
            while j < len(lines) and j < i + 200:
                l2 = lines[j]
                m2 = re.match(r'^(READ|WRITE) of size', l2)
                if m2:
                    rw = ':' + m2.group(1)
                if re.match(r'^(allocated by|previously allocated by)', l2) or 'is located' in l2:
                    mode = 'alloc'
                if re.match(r'^freed by', l2):
                    mode = 'freed'
                if FRAME_RE.match(l2) or FRAME_NOFILE_RE.match(l2):
                    (stack if mode == 'access' else alloc_stack).append(l2)
                if l2.startswith('SUMMARY:'):
                    break
                j += 1
            site = gil_site(stack)
            asite = gil_site(alloc_stack)
            tp = site is None and asite is None
            # DESIGN 2.7: the faulting frame is inside an uninstrumented image library and the buffer was
            # allocated by that library itself (no gil frame and no operator new in the allocation stack)
            real = [l for l in stack if not re.search(r' in (__interceptor_|__asan|__sanitizer|__interception)', l)]
            if real:
                m0 = FRAME_NOFILE_RE.match(real[0])
                if m0 and re.search(r'/lib(tiff|png|jpeg|z|turbojpeg)[^/]*\.so', m0.group(3)):
                    alloc_txt = '\n'.join(alloc_stack)
                    if alloc_stack and '/include/boost/gil/' not in alloc_txt and 'operator new' not in alloc_txt and 'sim_new' not in alloc_txt:
                        tp = True
            if site is None:
                site = 'no-gil-frame'
            if asite:
                site += '|buf@' + asite
            return dict(cls='asan:' + kind + rw, site=site, detail=ln.strip()[:200], stack=stack[:30], third_party=tp, in_image_member=in_image_member(stack))
        m = re.search(r'runtime error: (.*)', ln)
        if m:
            msg = m.group(1)
            msg_n = re.sub(r'0x[0-9a-f]+', 'ADDR', msg)
            msg_n = re.sub(r'-?\d+', 'N', msg_n)
            msg_n = re.sub(r"'[^']*'", 'T', msg_n)
            stack = lines[i + 1:i + 60]
            # the runtime error line itself carries file:line of the failing expression
            mm = re.match(r'^(/\S+?):(\d+):(\d+): runtime error', ln)
            site = gil_site(stack)
            if site is None and mm and '/include/boost/gil/' in mm.group(1):
                rel = mm.group(1).split('/include/boost/gil/')[1]
                site = rel[:-4].replace('extension/io/', 'io/').replace('/detail/', '/') + '::?'
            tp = site is None
            return dict(cls='ubsan:' + msg_n.strip().replace(' ', '-')[:80], site=site or 'no-gil-frame', detail=msg[:200],
                        stack=stack[:30], third_party=tp)
    return None


def signature(prop, config, v):
    return '%s|%s|%s|%s' % (prop, config, v['cls'], v['site'])


# ------------------------------------------------------------------------ known findings
def load_known():
    p = os.path.join(VERIF, 'known_findings.json')
    if not os.path.exists(p):
        return []
    return json.load(open(p))['findings']


def plan_has(plan, pred, list_key='ops'):
    for op in (plan or {}).get(list_key, []):
        ok = True
        for key, want in pred.items():
            have = op.get(key)
            if want is None:
                if have:
                    ok = False
            elif have != want:
                ok = False
        if ok:
            return True
    return False


def match_known(known, prop, config, v, plan=None, need_plan=None):
    """need_plan: list that receives entries whose cls/site/config match but whose plan predicate needs a (minimised) plan"""
    for k in known:
        if k.get('status') != 'known' or k['property'] != prop:
            continue
        m = k['match']
        if not fnmatch.fnmatchcase(v['cls'], m.get('cls', '*')):
            continue
        if not fnmatch.fnmatchcase(v['site'], m.get('site', '*')):
            continue
        if not fnmatch.fnmatchcase(config, m.get('config', '*')):
            continue
        if 'config_re' in m and not re.fullmatch(m['config_re'], config):
            continue
        if 'detail' in m and not fnmatch.fnmatchcase(v.get('detail', ''), m['detail']):
            continue
        if 'plan_opts_any' in m:
            if plan is None:
                if need_plan is not None:
                    need_plan.append(k)
                continue
            if not any(o in (plan.get('opts') or []) for o in m['plan_opts_any']):
                continue
        if 'plan_has' in m:
            if plan is None:
                if need_plan is not None:
                    need_plan.append(k)
                continue
            if not plan_has(plan, m['plan_has']):
                continue
        return k
    return None


# ------------------------------------------------------------------------------ run one plan
def run_replay(binary, plan, timeout=60, extra_env=None, args=None):
    """Execute one plan in a fresh process. Returns dict(rc, result(json|None), stderr, violation|None)."""
    os.makedirs(TMP, exist_ok=True)
    h = hashlib.sha1(json.dumps(plan, sort_keys=True).encode()).hexdigest()[:16]
    path = os.path.join(TMP, 'p_%d_%s.json' % (os.getpid(), h))
    with open(path, 'w') as f:
        json.dump(plan, f)
    try:
        return run_replay_file(binary, path, timeout, extra_env, args)
    finally:
        try:
            os.unlink(path)
        except OSError:
            pass


def run_replay_file(binary, path, timeout=60, extra_env=None, args=None):
    env = dict(os.environ)
    if extra_env:
        env.update(extra_env)
    try:
        p = subprocess.run([binary] + (args or []) + ['--replay', path], stdout=subprocess.PIPE, stderr=subprocess.PIPE,
                           text=True, errors='replace', timeout=timeout, env=env)
        rc, out, err = p.returncode, p.stdout, p.stderr
    except subprocess.TimeoutExpired as e:
        out = e.stdout or ''
        err = e.stderr or ''
        if isinstance(out, bytes):
            out = out.decode(errors='replace')
        if isinstance(err, bytes):
            err = err.decode(errors='replace')
        return dict(rc=-9, result=None, stderr=err, violation=dict(cls='watchdog:timeout', site='wall-clock', detail='no result within %ds' % timeout))
    res = None
    for ln in out.splitlines():
        ln = ln.strip()
        if ln.startswith('{'):
            try:
                res = json.loads(ln)
            except ValueError:
                pass
    viol = None
    if res is not None and res.get('violation'):
        viol = res['violation']
    elif rc not in (0, 10) or res is None:
        viol = classify_stderr(err)
        if viol is None:
            viol = dict(cls='signal:%d' % (-rc) if rc < 0 else 'exit:%d' % rc, site='unknown', detail=err[-300:])
    return dict(rc=rc, result=res, stderr=err, violation=viol)


# ------------------------------------------------------------------------------- minimisation
def ddmin(items, test):
    """Classic ddmin: smallest sublist (order kept) for which test(sublist) is True. test(items) assumed True."""
    n = 2
    while len(items) >= 2:
        chunk = max(1, len(items) // n)
        subsets = [items[i:i + chunk] for i in range(0, len(items), chunk)]
        reduced = False
        for i in range(len(subsets)):
            comp = [x for j, s in enumerate(subsets) if j != i for x in s]
            if comp and test(comp):
                items = comp
                n = max(n - 1, 2)
                reduced = True
                break
        if not reduced:
            for s in subsets:
                if len(s) < len(items) and test(s):
                    items = s
                    n = 2
                    reduced = True
                    break
        if not reduced:
            if n >= len(items):
                break
            n = min(len(items), n * 2)
    if len(items) == 1 and test([]):
        return []
    return items


class Minimizer:
    def __init__(self, run_fn, same_fn, budget=400):
        self.run_fn = run_fn      # plan -> violation dict or None
        self.same = same_fn       # violation -> bool (same signature as the original)
        self.budget = budget
        self.runs = 0

    def fails(self, plan):
        if self.runs >= self.budget:
            return False
        self.runs += 1
        v = self.run_fn(plan)
        return v is not None and self.same(v)

    def minimise(self, plan, list_key='ops', keep_keys=('op', 'kind', 'k')):
        plan = json.loads(json.dumps(plan))

        def with_ops(ops):
            q = dict(plan)
            q[list_key] = ops
            return q
        ops = ddmin(plan[list_key], lambda o: self.fails(with_ops(o)))
        plan[list_key] = ops
        # argument shrinking
        changed = True
        rounds = 0
        while changed and rounds < 3 and self.runs < self.budget:
            changed = False
            rounds += 1
            for i in range(len(plan[list_key])):
                op = plan[list_key][i]
                for key in sorted(op.keys()):
                    if key in keep_keys:
                        continue
                    val = op[key]
                    cands = []
                    if key == 'fault':
                        cands = [None]
                    elif isinstance(val, bool):
                        continue
                    elif isinstance(val, int):
                        if key in ('left', 'slack', 'pt', 'free', 'raw', 'pad', 'z'):
                            cands = [None]
                        else:
                            cands = [c for c in (0, 1, 2, val // 2, val - 1) if 0 <= c < val]
                    elif isinstance(val, list) and val:
                        red = ddmin(val, lambda l: self.fails(self._with(plan, list_key, i, key, l)))
                        if len(red) < len(val):
                            plan[list_key][i][key] = red
                            changed = True
                        continue
                    seen = set()
                    for c in cands:
                        if c in seen:
                            continue
                        seen.add(c)
                        q = self._with(plan, list_key, i, key, c)
                        if self.fails(q):
                            plan = q
                            changed = True
                            break
        return plan

    @staticmethod
    def _with(plan, list_key, i, key, value):
        q = json.loads(json.dumps(plan))
        if value is None:
            q[list_key][i].pop(key, None)
        else:
            q[list_key][i][key] = value
        return q


# --------------------------------------------------------------------------------- worker pool
class WorkerPool:
    """Runs `binary --worker --range a:b ...` over fixed chunks; attributes a dying worker to the in-flight index."""

    def __init__(self, binary, base_args, total, chunk, workers=CORES, start=0, deadline=None, per_run_timeout=120, env=None):
        self.binary, self.base_args = binary, base_args
        self.q = queue.Queue()
        for a in range(start, start + total, chunk):
            self.q.put((a, min(a + chunk, start + total)))
        self.results = []   # parsed R lines
        self.deaths = []    # dict(i, sub, rc, stderr)
        self.lock = threading.Lock()
        self.workers = workers
        self.deadline = deadline
        self.per_run_timeout = per_run_timeout
        self.env = env
        self.skipped_chunks = 0
        self.max_deaths = 400

    def _run_range(self, a, b):
        while a < b:
            if self.deadline and time.time() > self.deadline:
                with self.lock:
                    self.skipped_chunks += 1
                return
            env = dict(os.environ)
            if self.env:
                env.update(self.env)
            p = subprocess.Popen([self.binary, '--worker', '--range', '%d:%d' % (a, b)] + self.base_args,
                                 stdout=subprocess.PIPE, stderr=subprocess.PIPE, text=True, errors='replace', env=env)
            cur = [a, 0]
            last_progress = [time.time()]
            done = [False]

            killed = [False]

            def watchdog():
                while not done[0]:
                    time.sleep(0.5)
                    if time.time() - last_progress[0] > self.per_run_timeout:
                        killed[0] = True
                        try:
                            p.kill()
                        except OSError:
                            pass
                        return
            import collections
            errbuf = collections.deque(maxlen=1500)

            def read_err():
                for ln in p.stderr:
                    if ln.startswith('libpng ') or ln.startswith('TIFF') or ln.startswith('JPEG'):
                        continue
                    errbuf.append(ln)
            te = threading.Thread(target=read_err, daemon=True)
            te.start()
            tw = threading.Thread(target=watchdog, daemon=True)
            tw.start()
            local = []
            for ln in p.stdout:
                last_progress[0] = time.time()
                if ln.startswith('B '):
                    t = ln.split()
                    cur = [int(t[1]), int(t[2])]
                elif ln.startswith('R '):
                    try:
                        local.append(json.loads(ln[2:]))
                    except ValueError:
                        pass
            rc = p.wait()
            done[0] = True
            te.join(timeout=5)
            with self.lock:
                self.results.extend(local)
            if rc == 0:
                return
            if len(self.deaths) >= self.max_deaths:
                return
            with self.lock:
                self.deaths.append(dict(i=cur[0], sub=cur[1], rc=rc, stderr=''.join(errbuf),
                                        timeout=killed[0]))
            a = cur[0] + 1

    def _worker(self):
        while True:
            # a tree on which (nearly) every run dies needs no further exploration: the alarms collected so far are
            # triaged; the remaining chunks are counted as skipped
            if len(self.deaths) >= self.max_deaths:
                with self.lock:
                    while True:
                        try:
                            self.q.get_nowait(); self.skipped_chunks += 1
                        except queue.Empty:
                            break
                return
            try:
                a, b = self.q.get_nowait()
            except queue.Empty:
                return
            self._run_range(a, b)

    def run(self):
        ts = [threading.Thread(target=self._worker) for _ in range(self.workers)]
        for t in ts:
            t.start()
        for t in ts:
            t.join()
        self.results.sort(key=lambda r: r['i'])
        self.deaths.sort(key=lambda d: (d['i'], d['sub']))
        return self


# ------------------------------------------------------------------------------------ evidence
def write_evidence(prop, tier, seed, level, coverage, wall_s, violations, assumptions):
    os.makedirs(EVID, exist_ok=True)
    ev = dict(property_id=prop, tier=tier, seed=int(seed), level=level, coverage=coverage, assumptions=assumptions,
              wall_s=round(wall_s, 2), violations=int(violations))
    tmp = os.path.join(EVID, prop + '.json.tmp')
    with open(tmp, 'w') as f:
        json.dump(ev, f, indent=1, sort_keys=True)
    os.replace(tmp, os.path.join(EVID, prop + '.json'))


def save_replay(prop, sig, doc):
    d = os.path.join(REPLAYS, prop)
    os.makedirs(d, exist_ok=True)
    name = hashlib.sha1(sig.encode()).hexdigest()[:12] + '.json'
    path = os.path.join(d, name)
    with open(path, 'w') as f:
        json.dump(doc, f, indent=1)
    return path
