#!/usr/bin/env python3
"""seed_import.py <eval.json> <mutant-dir> <needs-text>: keep a confirmed seeded change under /verif/seeded/<id>/"""
import json, os, shutil, sys
ev = json.load(open(sys.argv[1])); src = sys.argv[2]; needs = sys.argv[3]
mid = '%s-%s' % (ev['property'], ev['mutant'].replace('_', '-'))
dst = os.path.join('/verif/seeded', mid)
os.makedirs(dst, exist_ok=True)
for f in os.listdir(src):
    if f.endswith(('.diff', '.cpp', '.hpp', '.sh', '.md')):
        shutil.copy(os.path.join(src, f), os.path.join(dst, f))
confirmed = ev.get('applies') and ev.get('demo_without') == 0 and ev.get('demo_with', 0) != 0 and '100% tests passed' in ev.get('suite', '')
meta = dict(id=mid, property=ev['property'], breaks=open(os.path.join(src, 'notes.md')).read().split('\n\n')[0][:600] if os.path.exists(os.path.join(src, 'notes.md')) else '',
            needs_to_manifest=needs, written_by='independent sub-agent given only the property text and a scratch worktree',
            confirmed=dict(applies=ev.get('applies'), pinned_suite_with_change=ev.get('suite'), demo_exit_without_change=ev.get('demo_without'), demo_exit_with_change=ev.get('demo_with'),
                           all_confirmed=bool(confirmed)),
            ran=['git apply patch.diff in scratch worktree; cmake --build + ctest (132 tests); bash build.sh && ./demo with and without the change',
                 'git -C /repo apply patch.diff; python3 tools/check.py %s --tier quick; git -C /repo checkout -- .' % ev['property']],
            check_result=dict(exit_code=ev.get('check_rc'), seconds=ev.get('check_s'), violations=ev.get('violations')),
            detected=ev.get('check_rc') == 1)
json.dump(meta, open(os.path.join(dst, 'meta.json'), 'w'), indent=1)
print(mid, 'confirmed' if confirmed else 'NOT CONFIRMED', 'detected' if meta['detected'] else 'MISSED')
