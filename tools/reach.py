#!/usr/bin/env python3
"""Reach probes (DESIGN.md 6): line coverage of gil's io headers under a sample of the C11/C12/C13 workloads, from a
gcov build of the same engine.  Prints per-header coverage and the never-executed functions; writes build/reach.json."""
import glob, gzip, json, os, subprocess, sys, shutil
sys.path.insert(0, os.path.dirname(os.path.abspath(__file__)))
import simlib

BINC = os.path.join(simlib.BUILD, 'bin', 'iosimC')
OBJ = os.path.join(simlib.BUILD, 'ioC')


def main():
    n = int(sys.argv[1]) if len(sys.argv) > 1 else 4000
    ok, _, text = simlib.build(['iocov'])
    if not ok:
        print(text[-2000:]); return 2
    for f in glob.glob(os.path.join(OBJ, '*.gcda')):
        os.unlink(f)
    env = dict(os.environ, SIM_NO_REEXEC='1')
    for mode, cnt in (('c11', n), ('trunc', n), ('c12', n // 2), ('c13', n // 2)):
        subprocess.run([BINC, '--worker', '--range', '0:%d' % cnt, '--mode', mode, '--seed', '7'], stdout=subprocess.DEVNULL, stderr=subprocess.DEVNULL, env=env)
    tmp = os.path.join(simlib.BUILD, 'gcov_out')
    shutil.rmtree(tmp, ignore_errors=True)
    os.makedirs(tmp)
    gcdas = glob.glob(os.path.join(OBJ, 'fmt_*.gcda'))
    subprocess.run(['gcov', '--json-format', '-o', OBJ] + gcdas, cwd=tmp, stdout=subprocess.DEVNULL, stderr=subprocess.DEVNULL)
    lines = {}   # file -> {line: count}
    funcs = {}   # (file, demangled) -> count
    for gz in glob.glob(os.path.join(tmp, '*.gcov.json.gz')):
        d = json.load(gzip.open(gz))
        for f in d['files']:
            fn = f['file']
            if '/include/boost/gil/' not in fn or ('/io/' not in fn):
                continue
            rel = fn.split('/include/boost/gil/')[1]
            L = lines.setdefault(rel, {})
            for ln in f['lines']:
                L[ln['line_number']] = L.get(ln['line_number'], 0) + ln['count']
            for fu in f['functions']:
                key = (rel, fu.get('demangled_name', fu['name']))
                funcs[key] = funcs.get(key, 0) + fu['execution_count']
    rep = {}
    tot_l = tot_c = 0
    for rel in sorted(lines):
        L = lines[rel]
        c = sum(1 for v in L.values() if v > 0)
        rep[rel] = dict(lines=len(L), covered=c)
        tot_l += len(L); tot_c += c
    print('reach: %d/%d instrumented lines of gil io headers executed (%.1f%%)' % (tot_c, tot_l, 100.0 * tot_c / max(1, tot_l)))
    for rel, r in sorted(rep.items(), key=lambda kv: kv[1]['covered'] / max(1, kv[1]['lines'])):
        print('  %5.1f%%  %4d/%-4d  %s' % (100.0 * r['covered'] / max(1, r['lines']), r['covered'], r['lines'], rel))
    import re
    zero = sorted({(rel, re.sub(r'<.*', '', name)[:110]) for (rel, name), c in funcs.items() if c == 0})
    # a function template is "never executed" only if no instantiation ran
    ran = {(rel, re.sub(r'<.*', '', name)[:110]) for (rel, name), c in funcs.items() if c > 0}
    never = [z for z in zero if z not in ran]
    print('never executed functions (no instantiation ran): %d' % len(never))
    for rel, name in never[:80]:
        print('   %s :: %s' % (rel, name))
    json.dump(dict(files=rep, never=never), open(os.path.join(simlib.BUILD, 'reach.json'), 'w'), indent=1)
    return 0


if __name__ == '__main__':
    sys.exit(main())
