#!/usr/bin/env python3
"""Determinism self-test (DESIGN.md 10.1): every engine/mode is executed over the same index range in fresh
processes with different worker counts / chunkings; the per-index result lines (outcome class, result digest,
device-call trace hash, counters) must be byte-identical.  A-vs-A and B-vs-B are compared (so that an A/B
difference can only come from the poison).  Exit 0 = identical, 1 = mismatch (prints the first few)."""
import json, os, subprocess, sys, time, concurrent.futures
sys.path.insert(0, os.path.dirname(os.path.abspath(__file__)))
import simlib

B = os.path.join(simlib.BUILD, 'bin')
CASES = [
    ('memsim14', ['--profile', 'c10', '--maxfaults', '60']), ('memsim17', ['--profile', 'c10', '--maxfaults', '60']),
    ('memsim14', ['--profile', 'c01']), ('memsim17', ['--profile', 'c01']),
    ('iosimA', ['--mode', 'c11']), ('iosimB', ['--mode', 'c11']), ('iosimA', ['--mode', 'trunc']), ('iosimB', ['--mode', 'trunc']),
    ('iosimA', ['--mode', 'fields']), ('iosimB', ['--mode', 'fields']),
    ('iosimA', ['--mode', 'c12']), ('iosimB', ['--mode', 'c12']), ('iosimA', ['--mode', 'c13']), ('iosimB', ['--mode', 'c13']),
]


def run_range(binary, args, a, b, seed):
    p = subprocess.run([os.path.join(B, binary), '--worker', '--range', '%d:%d' % (a, b), '--seed', str(seed)] + args,
                       stdout=subprocess.PIPE, stderr=subprocess.DEVNULL, text=True, errors='replace')
    out = {}
    for ln in p.stdout.splitlines():
        if ln.startswith('R '):
            try:
                r = json.loads(ln[2:])
            except ValueError:
                continue
            r.pop('plan', None)
            out[r['i']] = json.dumps(r, sort_keys=True)
    return out


def main():
    n = int(sys.argv[1]) if len(sys.argv) > 1 else 2000
    seed = int(os.environ.get('VERIF_SEED', '20260927'))
    ok, _, text = simlib.build(['mem', 'io'])
    if not ok:
        print(text[-2000:]); return 2
    bad = 0
    t0 = time.time()
    with concurrent.futures.ThreadPoolExecutor(max_workers=simlib.CORES) as ex:
        for binary, args in CASES:
            nn = n if 'c10' not in args else max(100, n // 10)
            # run 1: one process for the whole range; run 2: 16 processes with chunks of nn/16; run 3: 5 processes, uneven chunks
            f1 = ex.submit(run_range, binary, args, 0, nn, seed)
            chunks2 = [(a, min(a + max(1, nn // 16), nn)) for a in range(0, nn, max(1, nn // 16))]
            chunks3 = [(0, nn // 7), (nn // 7, nn // 3), (nn // 3, nn // 2), (nn // 2, nn - 3), (nn - 3, nn)]
            f2 = [ex.submit(run_range, binary, args, a, b, seed) for a, b in chunks2]
            f3 = [ex.submit(run_range, binary, args, a, b, seed) for a, b in chunks3 if a < b]
            r1 = f1.result()
            r2, r3 = {}, {}
            for f in f2:
                r2.update(f.result())
            for f in f3:
                r3.update(f.result())
            mism = [i for i in sorted(set(r1) | set(r2) | set(r3)) if not (r1.get(i) == r2.get(i) == r3.get(i))]
            # a run that died in one chunking dies in all (deterministic), so missing indices must coincide as well
            print('%-9s %-28s indices=%d compared=%d mismatches=%d' % (binary, ' '.join(args), nn, len(r1), len(mism)), flush=True)
            for i in mism[:3]:
                print('   i=%d\n     1: %s\n     2: %s\n     3: %s' % (i, (r1.get(i) or '-')[:300], (r2.get(i) or '-')[:300], (r3.get(i) or '-')[:300]))
            bad += len(mism)
    print('determinism selftest: %s in %.1fs' % ('OK' if not bad else '%d MISMATCHES' % bad, time.time() - t0))
    return 1 if bad else 0


if __name__ == '__main__':
    sys.exit(main())
