"""C11 / C12 / C13 driver over the iosim engines (A/B poison builds)."""
import json, os, sys, time, subprocess
import simlib
from simlib import log

BINA = os.path.join(simlib.BUILD, 'bin', 'iosimA')
BINB = os.path.join(simlib.BUILD, 'bin', 'iosimB')

TIERS = {
    ('C11', 'quick'): dict(seeded=100000, trunc='trunc', fields='fields', chunk=1000),
    ('C11', 'thorough'): dict(seeded=2000000, trunc='truncall', fields='fieldsall', chunk=2000),
    ('C12', 'quick'): dict(seeded=60000, chunk=500),
    ('C12', 'thorough'): dict(seeded=800000, chunk=1000),
    ('C13', 'quick'): dict(seeded=60000, chunk=500),
    ('C13', 'thorough'): dict(seeded=400000, chunk=1000),
}
MODE = {'C11': 'c11', 'C12': 'c12', 'C13': 'c13'}


def build_or_report(prop):
    ok, failed, text = simlib.build(['io'])
    if ok:
        return None
    logs = []
    for f in failed:
        try:
            logs.append(open(os.path.join(simlib.VERIF, f + '.log')).read()[:4000])
        except OSError:
            pass
    if not failed or not any('/repo/include' in l for l in logs):
        log(text[-3000:])
        print('BUILD-ERROR: harness failed to build for reasons not attributable to /repo')
        return 2
    doc = dict(engine='iosim', property=prop, kind='build', signature='%s|build|build:uninstantiable|%s' % (prop, ','.join(sorted(failed))),
               failed=failed, command='make -C /verif -k io', log=logs[0][:3000])
    path = simlib.save_replay(prop, doc['signature'], doc)
    print('build:uninstantiable %s' % ','.join(failed))
    print('VIOLATION property=%s replay=%s' % (prop, path))
    return 1


def gen_plan(mode, seed, i):
    p = subprocess.run([BINA, '--gen', str(i), '--mode', mode, '--seed', str(seed)], stdout=subprocess.PIPE, stderr=subprocess.PIPE, text=True, timeout=300)
    for ln in p.stdout.splitlines():
        if ln.startswith('{'):
            return json.loads(ln)
    return None


def config_of(plan):
    if plan is None:
        return 'unknown'
    return '%s/%s/%s/%s' % (plan.get('fmt'), plan.get('variant'), plan.get('entry', plan.get('mode')), plan.get('dev') if isinstance(plan.get('dev'), str) else '-')


def run_ab(plan, timeout=60):
    """Run a plan in both poison builds. Returns violation dict or None."""
    ra = simlib.run_replay(BINA, plan, timeout=timeout)
    if ra['violation']:
        return ra['violation']
    rb = simlib.run_replay(BINB, plan, timeout=timeout)
    if rb['violation']:
        return rb['violation']
    da, db = ra['result'], rb['result']
    if da is None or db is None:
        return dict(cls='exit:no-result', site=config_of(plan), detail='')
    if da['digest'] != db['digest']:
        return dict(cls='ab:digest-mismatch', site='%s' % da.get('cfg', config_of(plan)),
                    detail='zero-poison build: %s %sx%s; pattern-poison build: %s %sx%s' % (da['cls'], da['w'], da['h'], db['cls'], db['w'], db['h']))
    return None


def check(a):
    prop, tier, seed = a.prop, a.tier, a.seed
    t0 = time.time()
    rc = build_or_report(prop)
    if rc is not None:
        if rc == 1:
            simlib.write_evidence(prop, tier, seed, 'exploration', dict(evaluations=1, distinct_nontrivial=0, rule='build failed', samples=['build failure']), time.time() - t0, 1, [])
        return rc
    cfg = dict(TIERS[(prop, tier)])
    known = simlib.load_known()
    import shutil
    shutil.rmtree(os.path.join(simlib.REPLAYS, prop), ignore_errors=True)  # replay files of this run only
    deadline = t0 + (900 if tier == 'quick' else 6 * 3600)
    phases = []
    mode = MODE[prop]
    phases.append((mode, int(cfg['seeded'] * a.scale)))
    if prop == 'C11':
        tm = cfg['trunc']
        n = int(subprocess.run([BINA, '--count', '--mode', tm, '--seed', str(seed)], stdout=subprocess.PIPE, text=True).stdout.strip() or 0)
        phases.append((tm, n))
        fm = cfg['fields']
        n = int(subprocess.run([BINA, '--count', '--mode', fm, '--seed', str(seed)], stdout=subprocess.PIPE, text=True).stdout.strip() or 0)
        phases.append((fm, n))
    cands = []
    totals = dict(runs=0, steps=0, reads=0, seeks=0, writes=0, short_reads=0, eio=0, seekfail=0, eof_hits=0, file_faults=0, pre=0, ab_pairs=0, ab_mismatch=0)
    outcomes, fault_kinds, states, traces, nontrivial = {}, {}, set(), set(), set()
    samples = []
    skipped = 0
    per_fmt = {}
    for ph_mode, n in phases:
        if n <= 0:
            continue
        args = ['--mode', ph_mode, '--seed', str(seed)]
        half = max(1, a.workers // 2)
        import threading
        pa = simlib.WorkerPool(BINA, args, n, cfg['chunk'], workers=half, deadline=deadline, per_run_timeout=6)
        pb = simlib.WorkerPool(BINB, args, n, cfg['chunk'], workers=a.workers - half or 1, deadline=deadline, per_run_timeout=6)
        ta = threading.Thread(target=pa.run)
        tb = threading.Thread(target=pb.run)
        ta.start(); tb.start(); ta.join(); tb.join()
        skipped += pa.skipped_chunks + pb.skipped_chunks
        resb = {r['i']: r for r in pb.results}
        for r in pa.results:
            totals['runs'] += 1
            for k in ('steps', 'reads', 'seeks', 'writes', 'short_reads', 'eio', 'seekfail', 'eof_hits', 'file_faults', 'pre'):
                totals[k] += r.get(k, 0)
            outcomes[r['cls'].split(':')[0]] = outcomes.get(r['cls'].split(':')[0], 0) + 1
            for fk in r.get('faults', []):
                fault_kinds[fk] = fault_kinds.get(fk, 0) + 1
            states.add((r.get('fmt'), r.get('variant'), r.get('entry'), r.get('dev'), r['cls'].split(':')[0]))
            per_fmt[r.get('fmt')] = per_fmt.get(r.get('fmt'), 0) + 1
            tk = '%s:%s' % (r.get('cfg'), r['trace'])
            traces.add(tk)
            if r.get('steps', 0) >= 2 and (r.get('file_faults', 0) + r.get('eio', 0) + r.get('seekfail', 0) >= 1 or ph_mode in ('c12', 'c13')):
                nontrivial.add('%s:%s:%s' % (ph_mode, tk, r['digest']))
            rcfg = '%s/%s/%s/%s' % (r.get('fmt'), r.get('variant'), r.get('entry') or ph_mode, r.get('dev') or '-')
            if 'violation' in r:
                cands.append((r['plan'], r['violation'], '%s i=%d' % (ph_mode, r['i']), rcfg))
            rb = resb.get(r['i'])
            if rb is not None:
                totals['ab_pairs'] += 1
                if rb['digest'] != r['digest'] and 'violation' not in r:
                    totals['ab_mismatch'] += 1
                    cands.append((('gen', ph_mode, r['i']), dict(cls='ab:digest-mismatch', site=r.get('cfg', '?'),
                                  detail='A: %s %sx%s  B: %s %sx%s' % (r['cls'], r['w'], r['h'], rb['cls'], rb['w'], rb['h'])), '%s i=%d' % (ph_mode, r['i']), rcfg))
        for pool, nm in ((pa, 'A'), (pb, 'B')):
            for d in pool.deaths:
                v = simlib.classify_stderr(d['stderr'])
                if v is None:
                    import re
                    m = re.search(r'SIMSTEPS class=(\S+) site=(\S+) detail=(.*)', d['stderr'])
                    if m:
                        v = dict(cls=m.group(1), site=m.group(2), detail=m.group(3))
                if d.get('timeout'):
                    v = dict(cls='watchdog:timeout', site='wall-clock', detail='worker made no progress for 6 s (build %s)' % nm)
                if v is None:
                    v = dict(cls='exit:%d' % d['rc'], site='unknown', detail=d['stderr'][-300:])
                cands.append((('gen', ph_mode, d['i']), v, '%s worker-death(%s) i=%d' % (ph_mode, nm, d['i']), None))
        if len(samples) < 4:
            p = gen_plan(ph_mode, seed, 0)
            if p:
                samples.append(p)
            p = gen_plan(ph_mode, seed, max(0, n // 2))
            if p:
                samples.append(p)
    # ---- triage: group by (cls, site), confirm + minimise one representative each
    # Known findings without a plan predicate are matched per candidate (with the candidate's own config), so that a new
    # defect of the same class in another file variant is never hidden behind a known representative.
    groups = {}
    violations, known_hit, excluded, exit2 = [], {}, {}, False
    for planref, v, origin, rcfg in cands:
        if v.get('third_party'):
            excluded['%s|%s' % (v['cls'], v['site'])] = excluded.get('%s|%s' % (v['cls'], v['site']), 0) + 1
            continue
        if rcfg is not None:
            k = simlib.match_known(known, prop, rcfg, v, plan=None)
            if k is not None:
                known_hit[k['id']] = known_hit.get(k['id'], 0) + 1
                continue
        g = groups.setdefault((v['cls'], v['site']), dict(count=0, planref=planref, v=v, origin=origin, members=[]))
        g['count'] += 1
        if len(g['members']) < 40:
            g['members'].append((planref, v, origin, rcfg))
    processed = 0
    for key, g in sorted(groups.items(), key=lambda kv: str(kv[0])):
        plan = g['planref']
        if isinstance(plan, tuple):
            plan = gen_plan(plan[1], seed, plan[2])
        if processed >= 24:
            violations.append(('%s|%s|%s' % (prop, key[0], key[1]), None))
            continue
        processed += 1
        res = triage(prop, plan, g, known)
        if res == 'flaky':
            exit2 = True
        elif isinstance(res, tuple) and res[0] == 'known':
            known_hit[res[1]] = known_hit.get(res[1], 0) + g['count']
            # known by a predicate over the minimised plan: look at a few more members with other configs
            seen_cfg = {g['members'][0][3]}
            extra = 0
            for planref, v, origin, rcfg in g['members'][1:]:
                if rcfg in seen_cfg or extra >= 3:
                    continue
                seen_cfg.add(rcfg); extra += 1
                p2 = gen_plan(planref[1], seed, planref[2]) if isinstance(planref, tuple) else planref
                r2 = triage(prop, p2, dict(v=v, origin=origin, count=1), known)
                if r2 == 'flaky':
                    exit2 = True
                elif isinstance(r2, tuple):
                    continue
                else:
                    violations.append(('%s|%s|%s' % (prop, key[0], key[1]), r2))
        elif isinstance(res, tuple) and res[0] == 'excluded':
            excluded[res[1]] = excluded.get(res[1], 0) + g['count']
        else:
            violations.append(('%s|%s|%s' % (prop, key[0], key[1]), res))
            log('violation group %s|%s: %d occurrences in this run' % (key[0], key[1], g['count']))
    # thorough C11: independent cross-check of the A/B oracle with valgrind memcheck on the un-instrumented build
    vg = None
    if prop == 'C11' and tier == 'thorough':
        import valgrind_check
        vg = {}
        for vmode, vn in (('c11', 640), ('trunc', 640), ('fields', 640)):
            r = valgrind_check.crosscheck(vn, vmode, seed)
            if r is None:
                continue
            vg[vmode] = dict(plans=r[0], reports_inside_image_libraries=r[1], gil_side_findings=len(r[2]))
            for (kind, site), cnt in sorted(r[2].items()):
                doc = dict(engine='iosim', property=prop, kind='valgrind', mode=vmode, plans=vn, seed=seed,
                           signature='%s|valgrind|%s|%s' % (prop, kind, site), violation=dict(cls='valgrind:' + kind, site=site, detail='x%d' % cnt))
                violations.append((doc['signature'], simlib.save_replay(prop, doc['signature'], doc)))
    wall = time.time() - t0
    level = 'fault_enumeration' if prop == 'C11' else 'exploration'
    cov = dict(
        evaluations=totals['runs'] * 2 if prop == 'C11' else totals['runs'], distinct_nontrivial=len(nontrivial),
        rule=('plans are generated from splitmix64(VERIF_SEED, index): (format, file variant, dims, content seed, entry point, pixel type, device kind, '
              'delivery schedule, buffer size, 1-3 faults); C11 additionally enumerates every truncation point of every base file. Every plan is '
              'executed in two builds with different poison for never-written memory (A/B). evaluations = executions (both builds). '
              'distinct_nontrivial = plans with a distinct (config, device-call trace, result digest) that made >= 2 device calls and had >= 1 fault that took effect'
              if prop == 'C11' else
              'plans are generated from splitmix64(VERIF_SEED, index); distinct_nontrivial = plans with a distinct (config, device-call trace, result digest) that made >= 2 device calls'),
        samples=samples[:4], runs_per_hour=int(totals['runs'] * 2 / max(wall, 1e-3) * 3600),
        seeds=dict(base=seed, plans=totals['runs']),
        simulated_time='device steps served (no clocks in gil): %d' % totals['steps'],
        device_calls=dict(reads=totals['reads'], seeks=totals['seeks'], writes=totals['writes']),
        faults_fired=dict(file_mutations_applied=totals['file_faults'], eio=totals['eio'], seek_failures=totals['seekfail'], destinations_with_earlier_output=totals['pre'], short_deliveries=totals['short_reads'],
                          eof_reached_by_reader=totals['eof_hits']),
        faults_generated=fault_kinds, outcomes=outcomes, distinct_traces=len(traces), distinct_abstract_states=len(states),
        per_format=per_fmt, ab_pairs_compared=totals['ab_pairs'], ab_mismatches_seen=totals['ab_mismatch'],
        components=dict(real=['all of boost::gil io (readers, writers, devices)', 'glibc stdio over fopencookie', 'libstdc++ iostreams over sim::Streambuf',
                              'system libpng / libjpeg / libtiff / zlib (uninstrumented)'],
                        stubbed=['kernel file layer (sim::Disk + sim::Channel)', 'global operator new (4 MiB cap + poison fill)']),
        known_findings_hit=known_hit, excluded_third_party=excluded, skipped_chunks_at_deadline=skipped,
        valgrind_crosscheck=vg)
    simlib.write_evidence(prop, tier, seed, level, cov, wall, len(violations),
                          ['ASan/UBSan observe only instrumented code (gil headers + harness); libpng/libjpeg/libtiff are uninstrumented shared objects',
                           'sanitizer reports whose access and allocation stacks contain no gil frame are excluded as third-party',
                           'allocations are capped at 4 MiB per block (std::bad_alloc beyond), so declared sizes above that are not explored deeper'])
    for kid, n in sorted(known_hit.items()):
        k = [x for x in known if x['id'] == kid][0]
        print('KNOWN-FINDING: property=%s %s (%d occurrences)' % (prop, k['what'], n))
    for sig, path in violations:
        print('VIOLATION property=%s replay=%s' % (prop, path or 'unminimised:' + sig))
    log('%s %s: %d plans, %.1fs, %d violations, outcomes %s, excluded %s' % (prop, tier, totals['runs'], wall, len(violations), outcomes, excluded))
    if exit2 and not violations:
        print('SIMULATOR-NONDETERMINISM: an alarm did not replay; not reported as a violation')
        return 2
    return 1 if violations else 0


def triage(prop, plan, g, known):
    v0 = g['v']
    if plan is None:
        return 'flaky'

    def same(v):
        return v is not None and v['cls'] == v0['cls'] and v['site'] == v0['site']
    # a hang costs the full time limit per execution: while minimising, a plan that is still running after 12 s (twice the
    # workers' watchdog; honest plans take milliseconds to a few seconds) counts as hanging; the result is then confirmed
    # twice with the 60 s limit before it is reported
    tmo = 12 if v0['cls'] == 'watchdog:timeout' else 60
    v1 = run_ab(plan)
    if v0['cls'] == 'watchdog:timeout' and v1 is None:
        # A hang is a deterministic loop and reproduces in a fresh process (60 s limit there); a worker that was only
        # starved by a loaded machine does not.  Counted, not judged.
        return ('excluded', 'watchdog:not-a-hang (worker starved, plan completes when replayed alone)')
    if v0['cls'] == 'watchdog:timeout' and v1 is not None and v1['cls'] != 'watchdog:timeout':
        # the worker was killed by the wall-clock watchdog on a loaded machine while this plan was in flight; alone, the plan
        # ends quickly with another outcome (e.g. a sanitizer report inside libtiff that is excluded as third-party):
        # that outcome is what gets judged
        v0 = v1
    if not same(v1):
        # the site of an A/B mismatch or a step-budget report is the config string and stable; sanitizer sites come from the stack
        log('alarm did not reproduce alone:', v0, '->', v1, g['origin'])
        return 'flaky'
    mz = simlib.Minimizer(lambda p: run_ab(p, timeout=tmo), same, budget=250)
    small = mz.minimise(plan, keep_keys=('f', 'field', 'width', 'be'))
    # also try to shrink the image
    for key in ('w', 'h'):
        for c in (1, 2, 3):
            if small.get(key, 0) > c:
                q = dict(small); q[key] = c
                if mz.fails(q):
                    small = q
                    break
    for key, val in (('sched', 'full'), ('bufsz', -1), ('showmany', 0)):
        if small.get(key) != val:
            q = dict(small); q[key] = val
            if mz.fails(q):
                small = q
    v2, v3 = run_ab(small), run_ab(small)
    if not (same(v2) and same(v3)):
        small = plan
        v2 = run_ab(small)
        if not same(v2):
            return 'flaky'
    if v2.get('third_party'):
        return ('excluded', '%s|%s' % (v2['cls'], v2['site']))
    k = simlib.match_known(known, prop, config_of(small), v2, plan=small)
    if k is not None:
        return ('known', k['id'])
    sig = simlib.signature(prop, config_of(small), v2)
    doc = dict(engine='iosim', property=prop, signature=sig, plan=small, violation=dict(cls=v2['cls'], site=v2['site'], detail=v2.get('detail', '')),
               origin=g['origin'], minimiser_runs=mz.runs, ops_before=len(plan.get('ops', [])), ops_after=len(small.get('ops', [])), stack=v2.get('stack', [])[:14],
               how_to_replay='python3 tools/check.py --replay <this file>')
    return simlib.save_replay(prop, sig, doc)


def replay(a, doc):
    prop = doc['property']
    rc = build_or_report(prop)
    if doc.get('kind') == 'build':
        if rc == 1:
            return 1
        print('build succeeds: violation does not reproduce')
        return 0
    if rc is not None:
        return rc
    if doc.get('kind') == 'valgrind':
        import valgrind_check
        r = valgrind_check.crosscheck(doc['plans'], doc['mode'], doc['seed'])
        hit = r is not None and any('valgrind:' + k == doc['violation']['cls'] and s_ == doc['violation']['site'] for (k, s_) in r[2])
        if hit:
            print('VIOLATION property=%s replay=%s' % (prop, a.replay))
            return 1
        print('did not reproduce')
        return 0
    v = run_ab(doc['plan'])
    if v is not None and v['cls'] == doc['violation']['cls'] and v['site'] == doc['violation']['site']:
        print('reproduced: %s at %s: %s' % (v['cls'], v['site'], v.get('detail', '')))
        print('VIOLATION property=%s replay=%s' % (prop, a.replay))
        return 1
    print('did not reproduce (got %s)' % (v,))
    return 0
