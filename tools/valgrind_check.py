#!/usr/bin/env python3
"""Independent cross-check of the A/B poison oracle (DESIGN.md 2.5 d): a few hundred C11 plans are executed by the
un-instrumented build (iosimP) under valgrind memcheck; an 'uninitialised value' report whose stack has a frame in
gil's headers *above* the image library (i.e. gil itself branches on / copies out never-written bytes) is a finding.
Usage: valgrind_check.py [N plans, default 320] [--mode c11|trunc]     exit 0 none, 1 findings."""
import json, os, re, subprocess, sys, concurrent.futures, time
sys.path.insert(0, os.path.dirname(os.path.abspath(__file__)))
import simlib

BINP = os.path.join(simlib.BUILD, 'bin', 'iosimP')


def run_chunk(a, b, mode, seed):
    env = dict(os.environ, SIM_NO_REEXEC='1')
    p = subprocess.run(['valgrind', '-q', '--error-limit=no', '--num-callers=30', BINP, '--worker', '--range', '%d:%d' % (a, b), '--mode', mode,
                        '--seed', str(seed)], stdout=subprocess.PIPE, stderr=subprocess.PIPE, text=True, errors='replace', env=env, timeout=3600)
    cur = None
    # associate reports with the in-flight index: stdout 'B i' lines are not interleaved with stderr, so re-run is used for attribution
    reports = []
    block = []
    for ln in p.stderr.splitlines():
        if re.match(r'==\d+== (Conditional jump|Use of uninitialised|Syscall param|Invalid (read|write))', ln):
            if block:
                reports.append(block)
            block = [ln]
        elif block and re.match(r'==\d+==\s+(at|by) ', ln):
            block.append(ln)
        elif block and re.match(r'==\d+==\s*$', ln):
            reports.append(block); block = []
    if block:
        reports.append(block)
    n = sum(1 for ln in p.stdout.splitlines() if ln.startswith('R '))
    return n, reports


def gil_owned(block):
    """innermost frames: is the first non-libc frame inside gil headers / the harness (not inside libjpeg/png/tiff/z)?"""
    for ln in block[1:]:
        if re.search(r'\((vg_replace|memcheck)', ln):
            continue
        m = re.search(r'\(in (/\S+)\)', ln)
        if m and re.search(r'lib(jpeg|png|tiff|z|c|stdc\+\+)[^/]*\.so', m.group(1)):
            return re.search(r'libc|libstdc', m.group(1)) is not None and any('/boost/gil/' in l or 'gil::' in l for l in block[1:6])
        return '/boost/gil/' in ln or 'gil::' in ln
    return False


def crosscheck(n, mode, seed, quiet=False):
    """returns (plans, library_reports, findings{(kind, site): count}) or None if the plain build failed"""
    ok, _, text = simlib.build(['ioplain'])
    if not ok:
        return None
    per = max(1, n // simlib.CORES)
    total, findings, third = 0, {}, 0
    with concurrent.futures.ThreadPoolExecutor(max_workers=simlib.CORES) as ex:
        futs = [ex.submit(run_chunk, a, min(a + per, n), mode, seed) for a in range(0, n, per)]
        for f in futs:
            cnt, reps = f.result()
            total += cnt
            for blk in reps:
                if gil_owned(blk):
                    site = next((re.sub(r'==\d+==\s+(at|by) 0x[0-9A-F]+: ', '', l)[:160] for l in blk[1:] if 'gil' in l), blk[1][:160])
                    k = (blk[0].split('== ')[1][:60], site)
                    findings[k] = findings.get(k, 0) + 1
                else:
                    third += 1
    return total, third, findings


def main():
    n = int(sys.argv[1]) if len(sys.argv) > 1 and sys.argv[1].isdigit() else 320
    mode = sys.argv[sys.argv.index('--mode') + 1] if '--mode' in sys.argv else 'c11'
    seed = int(os.environ.get('VERIF_SEED', '20260927'))
    ok, _, text = simlib.build(['ioplain'])
    if not ok:
        print(text[-2000:]); return 2
    t0 = time.time()
    per = max(1, n // simlib.CORES)
    total, findings, third = 0, {}, 0
    with concurrent.futures.ThreadPoolExecutor(max_workers=simlib.CORES) as ex:
        futs = [ex.submit(run_chunk, a, min(a + per, n), mode, seed) for a in range(0, n, per)]
        for f in futs:
            cnt, reps = f.result()
            total += cnt
            for blk in reps:
                if gil_owned(blk):
                    site = next((re.sub(r'==\d+==\s+(at|by) 0x[0-9A-F]+: ', '', l)[:160] for l in blk[1:] if 'gil' in l), blk[1][:160])
                    findings.setdefault((blk[0].split('== ')[1][:60], site), []).append(blk)
                else:
                    third += 1
    print('valgrind cross-check: %d plans, %.0fs, %d reports inside image libraries (not judged), %d distinct gil-side findings' % (total, time.time() - t0, third, len(findings)))
    for (kind, site), blks in sorted(findings.items()):
        print('FINDING %s | %s | x%d' % (kind, site, len(blks)))
        for l in blks[0][:8]:
            print('    ' + l[:200])
    return 1 if findings else 0


if __name__ == '__main__':
    sys.exit(main())
