#!/usr/bin/env python3
"""seed_regress.py [--repo DIR] [--only ID-substring] [--jobs-note]
Regression over the kept seeded changes (DESIGN.md 10.2): every /verif/seeded/<id>/patch.diff is applied to a scratch
copy of the repository (never /repo itself unless --repo /repo is given explicitly), the property's *quick* check is run
against it (VERIF_REPO), the copy is restored, and the outcome is compared with meta.json's "detected".
Meant for `vp run --with-repo -- python3 tools/seed_regress.py` (uses $VP_RUN_REPO).  Prints one line per change and a
JSON summary (seeded/REGRESS.json in the current directory); exit 0 if every change is still reported, 1 otherwise."""
import json, os, subprocess, sys, time

HERE = os.path.dirname(os.path.dirname(os.path.abspath(__file__)))


def sh(cmd, cwd=None, env=None, timeout=7200):
    p = subprocess.run(cmd, shell=True, cwd=cwd, env=env, stdout=subprocess.PIPE, stderr=subprocess.STDOUT, text=True, timeout=timeout)
    return p.returncode, p.stdout


def main():
    repo = os.environ.get('VP_RUN_REPO')
    if '--repo' in sys.argv:
        repo = sys.argv[sys.argv.index('--repo') + 1]
    if not repo:
        print('no scratch repository: run under `vp run --with-repo` or pass --repo DIR'); return 2
    only = sys.argv[sys.argv.index('--only') + 1] if '--only' in sys.argv else ''
    env = dict(os.environ, VERIF_REPO=repo, VERIF_EVIDENCE_DIR=os.path.join(HERE, 'build', 'evidence_scratch'))
    rc, out = sh('git status --porcelain', cwd=repo)
    if out.strip():
        print('scratch repository not clean:\n' + out); return 2
    res, bad = [], 0
    sdir = os.path.join(HERE, 'seeded')
    # clean-tree run first: the checks must be quiet on the scratch copy itself
    ids = sorted(d for d in os.listdir(sdir) if os.path.isdir(os.path.join(sdir, d)) and only in d)
    # group by property so that the engines of one property are rebuilt back to back
    for mid in ids:
        meta = json.load(open(os.path.join(sdir, mid, 'meta.json')))
        prop = meta['property']
        patch = os.path.join(sdir, mid, 'patch.diff')
        rc, out = sh('git apply --check %s' % patch, cwd=repo)
        if rc != 0:
            print('%-55s DOES-NOT-APPLY' % mid, flush=True); bad += 1
            res.append(dict(id=mid, applies=False)); continue
        sh('git apply %s' % patch, cwd=repo)
        t0 = time.time()
        try:
            rc, out = sh('python3 tools/check.py %s --tier quick' % prop, cwd=HERE, env=env)
        finally:
            sh('git checkout -- .', cwd=repo)
        viol = [l for l in out.splitlines() if l.startswith('VIOLATION') or l.startswith('build:')]
        import re
        occ = sum(int(m.group(1)) for m in re.finditer(r'violation group .*: (\d+) occurrences in this run', out))
        ok = rc == 1 and bool(viol)
        bad += 0 if ok else 1
        print('%-55s %s rc=%d violations=%d occurrences=%d %.0fs' % (mid, 'reported' if ok else 'MISSED', rc, len(viol), occ, time.time() - t0), flush=True)
        res.append(dict(id=mid, property=prop, applies=True, exit_code=rc, violations=len(viol), failing_runs=occ, seconds=round(time.time() - t0, 1), reported=ok))
    # and the unchanged copy last (rebuilds the engines from the restored headers)
    quiet = {}
    for prop in ('C01', 'C10', 'C11', 'C12', 'C13'):
        if only:
            break
        rc, out = sh('python3 tools/check.py %s --tier quick' % prop, cwd=HERE, env=env)
        quiet[prop] = rc
        print('unchanged copy %s rc=%d' % (prop, rc), flush=True)
        bad += 0 if rc == 0 else 1
    json.dump(dict(repo_head=sh('git rev-parse --short HEAD', cwd=repo)[1].strip(), results=res, unchanged=quiet),
              open(os.path.join(HERE, 'seeded', 'REGRESS.json'), 'w'), indent=1)
    return 1 if bad else 0


if __name__ == '__main__':
    sys.exit(main())
