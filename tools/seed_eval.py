#!/usr/bin/env python3
"""seed_eval.py <mutant-dir> <worktree> <PROPERTY> [--skip-suite]
Confirms a seeded mutant in a scratch worktree (applies, suite passes, demo fails with / passes without), then applies it
to /repo, runs the property's quick check, and restores /repo.  Prints a JSON summary."""
import json, os, subprocess, sys, time, re

def sh(cmd, cwd=None, timeout=3600):
    p = subprocess.run(cmd, shell=True, cwd=cwd, stdout=subprocess.PIPE, stderr=subprocess.STDOUT, text=True, timeout=timeout)
    return p.returncode, p.stdout

def main():
    mdir, wt, prop = sys.argv[1], sys.argv[2], sys.argv[3]
    skip_suite = '--skip-suite' in sys.argv
    patch = os.path.join(mdir, 'patch.diff')
    res = dict(mutant=os.path.basename(mdir.rstrip('/')), property=prop)
    demo_only = '--demo-only' in sys.argv
    # the agents' build.sh take either the worktree or its include directory
    barg = wt if 'WT=' in open(os.path.join(mdir, 'build.sh')).read() else wt + '/include' 
    sh('git checkout -- .', cwd=wt)
    rc, out = sh('git apply --check %s' % patch, cwd=wt)
    res['applies'] = rc == 0
    if rc != 0:
        print(json.dumps(res)); return 1
    # demo without the change
    rc0, out0 = sh('bash build.sh %s && ./demo' % barg, cwd=mdir, timeout=900)
    res['demo_without'] = rc0
    sh('git apply %s' % patch, cwd=wt)
    if not skip_suite and not demo_only:
        if not os.path.exists(os.path.join(wt, '_build', 'build.ninja')):
            sh('cmake -G Ninja -S . -B _build -DCMAKE_BUILD_TYPE=RelWithDebInfo -DCMAKE_CXX_STANDARD=14 -DCMAKE_CXX_FLAGS=-Wno-error -DBOOST_GIL_BUILD_EXAMPLES=OFF -DBOOST_GIL_BUILD_HEADER_TESTS=OFF', cwd=wt)
        rc, out = sh('cmake --build _build -j12 2>&1 | tail -3 && ctest --test-dir _build -j12 --timeout 900 2>&1 | tail -4', cwd=wt, timeout=3600)
        m = re.search(r'(\d+)% tests passed, (\d+) tests failed out of (\d+)', out)
        res['suite'] = m.group(0) if m else out[-300:]
    rc1, out1 = sh('bash build.sh %s && timeout 120 ./demo' % barg, cwd=mdir, timeout=900)
    res['demo_with'] = rc1
    sh('git checkout -- .', cwd=wt)
    if demo_only:
        print(json.dumps(res)); return 0
    # now the checks against /repo
    rc, out = sh('git -C /repo status --porcelain')
    if out.strip():
        res['error'] = '/repo not clean'; print(json.dumps(res)); return 2
    sh('git -C /repo apply %s' % patch)
    t0 = time.time()
    try:
        rc, out = sh('VERIF_EVIDENCE_DIR=/tmp/wt/evidence_scratch python3 tools/check.py %s --tier quick' % prop, cwd='/verif', timeout=3600)
    finally:
        sh('git -C /repo checkout -- .')
    res['check_rc'] = rc
    res['check_s'] = round(time.time() - t0, 1)
    res['violations'] = [l for l in out.splitlines() if l.startswith('VIOLATION') or l.startswith('build:')][:6]
    print(json.dumps(res, indent=1))
    return 0

if __name__ == '__main__':
    sys.exit(main())
