#!/usr/bin/env python3
import json,sys,glob
for f in sys.argv[1:]:
    d=json.load(open(f))
    print('====',f.split('/')[-1],d['signature'],'| ops',d.get('ops_before'),'->',d.get('ops_after'),'runs',d.get('minimiser_runs'))
    print('    ',d['violation']['detail'][:300])
    for k,v in d['plan'].items():
        if k!='ops': print('    ',k,'=',json.dumps(v)[:200])
    for o in d['plan']['ops']: print('      ',json.dumps(o)[:400])
