#!/usr/bin/env python3
import json,sys,glob
for f in sys.argv[1:]:
    d=json.load(open(f))
    print('====',f.split('/')[-1],d['signature'],'| ops',d.get('ops_before'),'->',d.get('ops_after'),'runs',d.get('minimiser_runs'))
    print('    ',d['violation']['detail'][:300])
    p=d.get('plan',{})
    print('     '+' '.join('%s=%s'%(k,json.dumps(v)) for k,v in p.items() if k not in('ops','engine','index','seed','cseed','enum')))
    for o in p.get('ops',[]): print('      ',json.dumps(o)[:400])
    for l in d.get('stack',[])[:5]:
        import re
        m=re.match(r'\s*#(\d+) 0x[0-9a-f]+ in (.*?) (/\S+:\d+)',l)
        if m: print('        #%s %s  %s'%(m.group(1), m.group(2)[:90], m.group(3).replace('/repo/include/boost/gil/','')))
